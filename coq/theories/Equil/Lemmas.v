(** C10 proofs, part 6: the theorems about [setup] (= DefaultSolver::new's equilibration). *)
From Coq Require Import List Arith ZArith Reals Bool Lia Lra.
Import ListNotations.
Require Import Clarabel.Base.Ops Clarabel.Csc.Model Clarabel.Csc.Spec.
Require Import Clarabel.Csc.LemmasAlgBase Clarabel.Csc.LemmasAlg.
Require Import Clarabel.Equil.Model Clarabel.Equil.Spec Clarabel.Equil.LemmasBase.
Require Import Clarabel.Equil.LemmasNorms Clarabel.Equil.LemmasStep Clarabel.Equil.LemmasRect.
Require Import Clarabel.Equil.LemmasLoop.
Local Open Scope R_scope.

Lemma disabled_identity_ok {T} (O : Ops T) : stmt_disabled_identity O.
Proof.
  intros S cs P q A b Hen. unfold setup, equilibrate. rewrite Hen. cbn.
  repeat split; reflexivity.
Qed.

(** ** sums of positive numbers *)
Lemma vsum_pos x : x <> [] -> (forall v, In v x -> 0 < v) -> 0 < vsum OpsR x.
Proof.
  induction x as [|v x IH]; intros Hne H; [congruence|].
  rewrite vsum_cons. pose proof (H v (or_introl eq_refl)) as Hv.
  destruct x as [|w x].
  - unfold vsum. cbn [fold_left zero OpsR]. lra.
  - assert (0 < vsum OpsR (w :: x)); [|lra].
    apply IH; [discriminate|]. intros u Hu. apply H. right. exact Hu.
Qed.
Lemma mean_pos x : x <> [] -> (forall v, In v x -> 0 < v) -> 0 < mean OpsR x.
Proof.
  intros Hne H. pose proof (vsum_pos x Hne H) as Hs.
  destruct x as [|a x]; [congruence|].
  unfold mean, ofnat. cbn [div ofZ OpsR]. rewrite <- INR_IZR_INZ.
  apply Rdiv_lt_0_compat; [exact Hs|]. apply lt_0_INR. cbn [length]. lia.
Qed.

Lemma in_nth_lt (l : list R) x : In x l -> exists i, (i < length l)%nat /\ nth i l 0 = x.
Proof. intros H. apply (In_nth l x 0) in H. exact H. Qed.

(** ** the initial state and the enabled path *)
Section Final.
Variable S : @settings R.
Variable cs : list cone.
Variables (P : cscR) (q : list R) (A : cscR) (b : list R).
Hypothesis WF : WFdata P q A b.
Let n := nc A.
Let m := nr A.

Definition s0 : lstateR := mkL P q A b (ones OpsR n) (ones OpsR m) 1.
Definition sN : lstateR := ruiz OpsR S (eq_max_iter S) s0.
Definition delta : list R := fst (rectify OpsR cs (le sN)).

Lemma dims_s0 : Dims n m s0.
Proof.
  destruct WF as (WP & WA & H1 & H2 & H3 & H4). unfold Dims, s0. cbn [lP lq lA lb ld le].
  repeat split; try assumption; try reflexivity; apply ones_length.
Qed.

Lemma exact_s0 : Exact P q A b n m s0.
Proof.
  unfold Exact, s0. cbn [lP lq lA lb ld le lc].
  repeat split; intros; rewrite ?nth_ones by assumption; ring.
Qed.

Lemma pos_s0 : Pos n m s0.
Proof.
  unfold Pos, s0. cbn [ld le lc]. repeat split; intros; rewrite ?nth_ones by assumption; lra.
Qed.

Lemma dims_sN : Dims n m sN.
Proof. apply (ruiz_ind S n m (fun _ => True)); auto. apply dims_s0. Qed.

Lemma delta_length : length delta = m.
Proof.
  unfold delta. rewrite rectify_length.
  destruct dims_sN as (_ & _ & _ & _ & _ & _ & _ & _ & _ & He). exact He.
Qed.

Lemma setup_enabled : eq_enable S = true ->
  let r := setup OpsR S cs P q A b in
  pP r = lP sN /\ pq r = lq sN /\ ed (peq r) = ld sN /\ ec (peq r) = lc sN /\
  edinv (peq r) = map (recip OpsR) (ld sN) /\
  eeinv (peq r) = map (recip OpsR) (ee (peq r)) /\
  length (ee (peq r)) = m /\ length (pb r) = m /\ nr (pA r) = m /\ nc (pA r) = n /\
  (forall i, (i < m)%nat -> nth i (ee (peq r)) 0 = nth i (le sN) 0 * nth i delta 0) /\
  (forall i, (i < m)%nat -> nth i (pb r) 0 = nth i (lb sN) 0 * nth i delta 0) /\
  (forall i j, (i < m)%nat -> getR (pA r) i j = getR (lA sN) i j * nth i delta 0).
Proof.
  intros Hen. cbv zeta.
  pose proof dims_sN as HD. pose proof delta_length as Ldl.
  destruct HD as (WP & WA & HP1 & HP2 & HA1 & HA2 & Hq & Hb & Hd & He).
  unfold setup, equilibrate. rewrite Hen. cbn [negb].
  unfold pdata_new, equil_new. cbn [pP pq pA pb peq ed ee ec].
  change (mkL P q A b (ones OpsR (nc A)) (ones OpsR (nr A)) (one OpsR)) with s0.
  change (ruiz OpsR S (eq_max_iter S) s0) with sN.
  pose proof (rectify_unchanged cs (le sN)) as Hun.
  unfold delta in *. destruct (rectify OpsR cs (le sN)) as [dl ch] eqn:ER. cbn [fst snd] in *.
  destruct ch; cbn [pP pq pA pb peq ed edinv ee eeinv ec].
  - (* some cone rectified: rescale *)
    destruct (map_vals_ok OpsR LawsR (lA sN) dl dl 0 WA) as (_ & _ & GL & _).
    cbn [mul zero OpsR] in GL.
    destruct (map_vals_dims (fun i _ v => mul OpsR v (nth i dl (zero OpsR))) (lA sN)) as [D1 [D2 _]].
    fold (lscale OpsR (lA sN) dl) in D1, D2.
    repeat split; try reflexivity; try congruence;
      try (rewrite hadamard_length; lia);
      try (intros i Hi; apply nth_hadamard; lia);
      try (intros i j Hi; apply GL).
  - (* nothing rectified *)
    specialize (Hun eq_refl).
    repeat split; try reflexivity; try congruence;
      try (intros i Hi; rewrite Hun by lia; ring);
      try (intros i j Hi; rewrite Hun by lia; ring).
Qed.

Lemma setup_disabled : eq_enable S = false ->
  setup OpsR S cs P q A b = mkPdata P q A b (mkEquil (ones OpsR n) (ones OpsR n) (ones OpsR m) (ones OpsR m) 1).
Proof. intros Hen. unfold setup, equilibrate. rewrite Hen. reflexivity. Qed.

Lemma map_inv_ones k : map (fun x : R => 1 / x) (ones OpsR k) = ones OpsR k.
Proof.
  unfold ones. cbn [one OpsR]. induction k as [|k IH]; cbn [repeat map]; [reflexivity|].
  rewrite IH. f_equal. field.
Qed.

(** *** 1. exactness *)
Lemma exact_final :
  let r := setup OpsR S cs P q A b in
  let d := ed (peq r) in let e := ee (peq r) in let c := ec (peq r) in
  length d = n /\ length e = m /\ length (pq r) = n /\ length (pb r) = m /\
  nr (pP r) = n /\ nc (pP r) = n /\ nr (pA r) = m /\ nc (pA r) = n /\
  (forall i j, (i < n)%nat -> (j < n)%nat ->
      getR (pP r) i j = c * (nthR d i * getR P i j * nthR d j)) /\
  (forall i j, (i < m)%nat -> (j < n)%nat ->
      getR (pA r) i j = nthR e i * getR A i j * nthR d j) /\
  (forall j, (j < n)%nat -> nthR (pq r) j = c * (nthR d j * nthR q j)) /\
  (forall i, (i < m)%nat -> nthR (pb r) i = nthR e i * nthR b i) /\
  edinv (peq r) = map (fun x => 1 / x) d /\
  eeinv (peq r) = map (fun x => 1 / x) e.
Proof.
  cbv zeta. unfold nthR. destruct (eq_enable S) eqn:Hen.
  - destruct (setup_enabled Hen) as (E1 & E2 & E3 & E4 & E5 & E6 & L1 & L2 & D1 & D2 & Ne & Nb & NA).
    destruct (ruiz_ind S n m (Exact P q A b n m) (exact_step S P q A b n m) (eq_max_iter S) s0 dims_s0 exact_s0)
      as [HD (XP & XA & Xq & Xb)].
    fold sN in HD, XP, XA, Xq, Xb.
    destruct HD as (WP & WA & HP1 & HP2 & HA1 & HA2 & Hq & Hb & Hd & He).
    rewrite E1, E2, E3, E4.
    repeat split; try assumption; try congruence;
      try (intros i j Hi Hj; apply XP; assumption);
      try (intros i j Hi Hj; rewrite NA, Ne, XA by assumption; ring);
      try (intros j Hj; apply Xq; assumption);
      try (intros i Hi; rewrite Nb, Ne, Xb by assumption; ring).
  - rewrite (setup_disabled Hen). cbn [pP pq pA pb peq ed edinv ee eeinv ec].
    destruct WF as (WP & WA & H1 & H2 & H3 & H4).
    repeat split; try assumption; try apply ones_length; try (symmetry; apply map_inv_ones);
      intros; rewrite ?nth_ones by assumption; ring.
Qed.

(** *** positivity, bounds *)
Lemma final_e_cases i : (i < m)%nat -> eq_enable S = true -> Pos n m sN ->
  let e := ee (peq (setup OpsR S cs P q A b)) in
  nth i e 0 = nth i (le sN) 0 \/
  exists sl, sl <> [] /\ (forall x, In x sl -> In x (le sN)) /\ nth i e 0 = mean OpsR sl.
Proof.
  intros Hi Hen (_ & Pe & _). cbv zeta.
  destruct (setup_enabled Hen) as (_ & _ & _ & _ & _ & _ & _ & _ & _ & _ & Ne & _).
  rewrite Ne by exact Hi.
  pose proof dims_sN as (_ & _ & _ & _ & _ & _ & _ & _ & _ & He).
  destruct (rectify_weak cs (le sN) i) as [H1|[sl [Hne [Hin Hv]]]]; [lia| |].
  - left. fold delta in H1. rewrite H1. ring.
  - right. exists sl. split; [exact Hne|]. split; [exact Hin|].
    fold delta in Hv. rewrite Hv. pose proof (Pe i Hi). field. lra.
Qed.

Lemma in_le_pos : Pos n m sN -> forall x, In x (le sN) -> 0 < x.
Proof.
  intros (_ & Pe & _) x Hx. destruct (in_nth_lt _ _ Hx) as [i [Hi <-]].
  pose proof dims_sN as (_ & _ & _ & _ & _ & _ & _ & _ & _ & He). apply Pe. lia.
Qed.
Lemma in_le_within : BndDE S n m sN -> forall x, In x (le sN) -> slo S <= x <= shi S.
Proof.
  intros (_ & Be) x Hx. destruct (in_nth_lt _ _ Hx) as [i [Hi <-]].
  pose proof dims_sN as (_ & _ & _ & _ & _ & _ & _ & _ & _ & He). apply Be. lia.
Qed.

Lemma pos_sN : SettingsPos S -> Pos n m sN.
Proof.
  intros HS.
  destruct (ruiz_ind S n m (Pos n m)
             (fun s HD HP => proj1 (pos_step S n m s HS HD HP)) (eq_max_iter S) s0 dims_s0 pos_s0) as [_ H].
  exact H.
Qed.

Lemma positive_final : SettingsPos S ->
  let r := setup OpsR S cs P q A b in
  (forall j, (j < n)%nat -> 0 < nthR (ed (peq r)) j /\ nthR (edinv (peq r)) j * nthR (ed (peq r)) j = 1) /\
  (forall i, (i < m)%nat -> 0 < nthR (ee (peq r)) i /\ nthR (eeinv (peq r)) i * nthR (ee (peq r)) i = 1) /\
  0 < ec (peq r).
Proof.
  intros HS. cbv zeta. unfold nthR. destruct (eq_enable S) eqn:Hen.
  - pose proof (pos_sN HS) as HP. pose proof HP as (Pd & Pe & Pc).
    destruct (setup_enabled Hen) as (_ & _ & E3 & E4 & E5 & E6 & L1 & _).
    pose proof dims_sN as (_ & _ & _ & _ & _ & _ & _ & _ & Hd & He).
    assert (Epos : forall i, (i < m)%nat -> 0 < nth i (ee (peq (setup OpsR S cs P q A b))) 0).
    { intros i Hi. destruct (final_e_cases i Hi Hen HP) as [->|[sl [Hne [Hin ->]]]].
      - apply Pe; exact Hi.
      - apply mean_pos; [exact Hne|]. intros v Hv. apply (in_le_pos HP). apply Hin. exact Hv. }
    rewrite E3, E4, E5, E6. split; [|split].
    + intros j Hj. pose proof (Pd j Hj). split; [assumption|].
      rewrite nth_map_recip by lia. field. lra.
    + intros i Hi. pose proof (Epos i Hi). split; [assumption|].
      rewrite nth_map_recip by lia. field. lra.
    + exact Pc.
  - rewrite (setup_disabled Hen). cbn [peq ed edinv ee eeinv ec].
    repeat split; intros; rewrite ?nth_ones by assumption; lra.
Qed.

Lemma within_e_final : SettingsPos S -> eq_enable S = true -> BndDE S n m sN ->
  forall i, (i < m)%nat ->
    within (slo S) (shi S) (nth i (ee (peq (setup OpsR S cs P q A b))) 0).
Proof.
  intros HS Hen HB i Hi. pose proof (pos_sN HS) as HP.
  destruct (final_e_cases i Hi Hen HP) as [->|[sl [Hne [Hin ->]]]].
  - destruct HB as (_ & Be). apply Be. exact Hi.
  - apply mean_bounds; [exact Hne|]. intros v Hv. apply (in_le_within HB). apply Hin. exact Hv.
Qed.

Lemma bounds_final : SettingsPos S -> OneInRangeGen S ->
  let r := setup OpsR S cs P q A b in
  (forall j, (j < n)%nat -> within (slo S) (shi S) (nthR (ed (peq r)) j)) /\
  (forall i, (i < m)%nat -> within (slo S) (shi S) (nthR (ee (peq r)) i)) /\
  within (slo S) (shi S) (ec (peq r)).
Proof.
  intros HS H1. cbv zeta. unfold nthR. destruct (eq_enable S) eqn:Hen.
  - set (Inv := fun s : lstateR => Pos n m s /\ BndDE S n m s /\ within (slo S) (shi S) (lc s)).
    assert (I0 : Inv s0).
    { split; [apply pos_s0|]. destruct H1 as [Ha Hb].
      unfold BndDE, s0, within. cbn [ld le lc].
      repeat split; intros; rewrite ?nth_ones by assumption; lra. }
    assert (Istep : forall s, Dims n m s -> Inv s -> Inv (ruiz_step OpsR S s)).
    { intros s HD (HP & HB & HC). destruct (pos_step S n m s HS HD HP) as (HP' & HB' & HC').
      split; [exact HP'|]. split; [exact HB'|]. destruct HC' as [HC'|HC']; [exact HC'|].
      rewrite HC'. exact HC. }
    destruct (ruiz_ind S n m Inv Istep (eq_max_iter S) s0 dims_s0 I0) as [_ (HP & HB & HC)].
    fold sN in HP, HB, HC.
    destruct (setup_enabled Hen) as (_ & _ & E3 & E4 & _).
    split; [|split].
    + rewrite E3. destruct HB as (Bd & _). exact Bd.
    + apply within_e_final; assumption.
    + rewrite E4. exact HC.
  - rewrite (setup_disabled Hen). cbn [peq ed edinv ee eeinv ec]. destruct H1 as [Ha Hb].
    unfold within. repeat split; intros; rewrite ?nth_ones by assumption; lra.
Qed.

Lemma bounds_iter_final : SettingsPos S -> eq_enable S = true -> (1 <= eq_max_iter S)%nat ->
  let r := setup OpsR S cs P q A b in
  (forall j, (j < n)%nat -> within (slo S) (shi S) (nthR (ed (peq r)) j)) /\
  (forall i, (i < m)%nat -> within (slo S) (shi S) (nthR (ee (peq r)) i)) /\
  (within (slo S) (shi S) (ec (peq r)) \/ ec (peq r) = 1).
Proof.
  intros HS Hen Hit. cbv zeta. unfold nthR.
  set (Inv := fun s : lstateR => Pos n m s /\ BndDE S n m s /\
                                 (within (slo S) (shi S) (lc s) \/ lc s = 1)).
  assert (Istep : forall s, Dims n m s -> Inv s -> Inv (ruiz_step OpsR S s)).
  { intros s HD (HP & HB & HC). destruct (pos_step S n m s HS HD HP) as (HP' & HB' & HC').
    split; [exact HP'|]. split; [exact HB'|]. destruct HC' as [HC'|HC']; [left; exact HC'|].
    rewrite HC'. exact HC. }
  assert (HsN : Inv sN).
  { unfold sN. destruct (eq_max_iter S) as [|k]; [lia|]. cbn [ruiz].
    destruct (step_facts S n m s0 dims_s0) as (ct & HD1 & _).
    destruct (pos_step S n m s0 HS dims_s0 pos_s0) as (HP1 & HB1 & HC1).
    apply (ruiz_ind S n m Inv Istep k _ HD1).
    split; [exact HP1|]. split; [exact HB1|]. destruct HC1 as [HC1|HC1]; [left; exact HC1|].
    right. rewrite HC1. reflexivity. }
  destruct HsN as (HP & HB & HC).
  destruct (setup_enabled Hen) as (_ & _ & E3 & E4 & _).
  split; [|split].
  - rewrite E3. destruct HB as (Bd & _). exact Bd.
  - apply within_e_final; assumption.
  - rewrite E4. exact HC.
Qed.

(** *** 3. zero rows / columns *)
Lemma zero_col_final : SettingsOk S -> OneInRange S ->
  forall j, (j < n)%nat -> col_zero P j -> row_zero P j -> col_zero A j ->
    nthR (ed (peq (setup OpsR S cs P q A b))) j = 1.
Proof.
  intros HS H1 j Hj Z1 Z2 Z3. unfold nthR. destruct (eq_enable S) eqn:Hen.
  - destruct (setup_enabled Hen) as (_ & _ & E3 & _). rewrite E3.
    assert (I0 : ZeroCol j s0).
    { unfold ZeroCol, s0. cbn [lP lA ld]. repeat split; try assumption. apply nth_ones. exact Hj. }
    destruct (ruiz_ind S n m (ZeroCol j) (fun s HD => zerocol_step S n m j s H1 Hj HD)
                (eq_max_iter S) s0 dims_s0 I0) as [_ (_ & _ & _ & Hd)].
    exact Hd.
  - rewrite (setup_disabled Hen). cbn [peq ed]. apply nth_ones. exact Hj.
Qed.

Lemma zero_row_final : SettingsOk S -> OneInRange S ->
  forall k off nn i, In (k, off, nn) (cone_ranges 0 cs) -> scalar_kind k = true ->
    (off <= i < off + nn)%nat -> (off + nn <= m)%nat -> row_zero A i ->
    nthR (ee (peq (setup OpsR S cs P q A b))) i = 1.
Proof.
  intros HS H1 k off nn i Hin Hk Hi Hle Z. unfold nthR.
  assert (Him : (i < m)%nat) by lia.
  destruct (eq_enable S) eqn:Hen.
  - destruct (setup_enabled Hen) as (_ & _ & _ & _ & _ & _ & _ & _ & _ & _ & Ne & _).
    rewrite Ne by exact Him.
    assert (I0 : ZeroRow i s0).
    { unfold ZeroRow, s0. cbn [lA le]. split; [exact Z | apply nth_ones; exact Him]. }
    destruct (ruiz_ind S n m (ZeroRow i) (fun s HD => zerorow_step S n m i s H1 Him HD)
                (eq_max_iter S) s0 dims_s0 I0) as [HD (_ & He1)].
    fold sN in HD, He1. rewrite He1.
    destruct HD as (_ & _ & _ & _ & _ & _ & _ & _ & _ & He).
    unfold delta. rewrite (rectify_range cs (le sN) k off nn Hin) by lia.
    rewrite Hk. ring.
  - rewrite (setup_disabled Hen). cbn [peq ee]. apply nth_ones. exact Him.
Qed.

(** *** 4. uniform over non-scalar cones *)
Lemma uniform_final : SettingsPos S -> eq_enable S = true ->
  forall k off nn, In (k, off, nn) (cone_ranges 0 cs) -> scalar_kind k = false ->
    (off + nn <= m)%nat ->
    exists mu, 0 < mu /\
      forall i, (off <= i < off + nn)%nat ->
        nthR (ee (peq (setup OpsR S cs P q A b))) i = mu /\
        nthR (eeinv (peq (setup OpsR S cs P q A b))) i = 1 / mu.
Proof.
  intros HS Hen k off nn Hin Hk Hle. unfold nthR.
  pose proof (pos_sN HS) as HP. pose proof HP as (_ & Pe & _).
  destruct (setup_enabled Hen) as (_ & _ & _ & _ & _ & E6 & L1 & _ & _ & _ & Ne & _).
  pose proof dims_sN as (_ & _ & _ & _ & _ & _ & _ & _ & _ & He).
  destruct nn as [|nn'].
  - exists 1. split; [lra|]. intros i Hi. lia.
  - set (nn := Datatypes.S nn') in *.
    set (sl := firstn nn (skipn off (le sN))).
    assert (Lsl : length sl = nn).
    { unfold sl. rewrite firstn_length, skipn_length. lia. }
    assert (Hmu : 0 < mean OpsR sl).
    { apply mean_pos.
      - intros E. rewrite E in Lsl. cbn [length] in Lsl. unfold nn in Lsl. lia.
      - intros v Hv. apply (in_le_pos HP). apply (in_skipn _ off). apply (in_firstn _ nn). exact Hv. }
    exists (mean OpsR sl). split; [exact Hmu|].
    intros i Hi. assert (Him : (i < m)%nat) by lia.
    assert (Ei : nth i (ee (peq (setup OpsR S cs P q A b))) 0 = mean OpsR sl).
    { rewrite Ne by exact Him. unfold delta.
      rewrite (rectify_range cs (le sN) k off nn Hin) by lia. rewrite Hk.
      fold sl. pose proof (Pe i Him). field. lra. }
    split; [exact Ei|].
    rewrite E6. rewrite nth_map_recip by lia. rewrite Ei. reflexivity.
Qed.

End Final.

(** ** the statements of Spec.v *)
Lemma equil_exact_ok : stmt_equil_exact.
Proof. intros S cs P q A b WF. apply exact_final. exact WF. Qed.

Lemma equil_positive_ok : stmt_equil_positive.
Proof. intros S cs P q A b HS WF. apply positive_final; [assumption | apply settings_ok_pos; assumption]. Qed.

Lemma equil_bounds_ok : stmt_equil_bounds.
Proof.
  intros S cs P q A b HS H1 WF. rewrite <- (settings_ok_lo S HS), <- (settings_ok_hi S HS).
  apply bounds_final; [assumption | apply settings_ok_pos; assumption |].
  unfold OneInRangeGen. rewrite (settings_ok_lo S HS), (settings_ok_hi S HS). exact H1.
Qed.

Lemma equil_bounds_iter_ok : stmt_equil_bounds_iter.
Proof.
  intros S cs P q A b HS Hen Hit WF. rewrite <- (settings_ok_lo S HS), <- (settings_ok_hi S HS).
  apply bounds_iter_final; try assumption. apply settings_ok_pos; assumption.
Qed.

Lemma zero_col_unscaled_ok : stmt_zero_col_unscaled.
Proof. intros S cs P q A b HS H1 WF r j Hj Z1 Z2 Z3. apply zero_col_final; assumption. Qed.

Lemma zero_row_unscaled_ok : stmt_zero_row_unscaled.
Proof.
  intros S cs P q A b HS H1 WF r k off nn i Hin Hk Hi Hle Z.
  apply (zero_row_final S cs P q A b WF HS H1 k off nn i); assumption.
Qed.

Lemma cone_uniform_ok : stmt_cone_uniform.
Proof.
  intros S cs P q A b HS Hen WF r k off nn Hin Hk Hle.
  apply (uniform_final S cs P q A b WF (settings_ok_pos S HS) Hen k off nn); assumption.
Qed.

(** the literal bound statement fails for min > 1 *)
Definition wS : @settings R := mkSettings true 0 2 4.
Definition wP : cscR := mkCsc 1 1 [[]].
Definition wA : cscR := mkCsc 1 1 [[(0%nat, 1)]].

Lemma equil_bounds_literal_refuted_ok : stmt_equil_bounds_literal_refuted.
Proof.
  exists wS, [(KNonneg, 1%nat)], wP, [1], wA, [1].
  split; [unfold SettingsOk, wS; cbn [eq_min eq_max]; lra|].
  split; [reflexivity|].
  split; [unfold WFdata, WellDim, wP, wA; cbn; repeat split; reflexivity|].
  unfold setup, equilibrate, pdata_new, equil_new, wS, wA, wP.
  cbn [eq_enable negb eq_max_iter ruiz pP pq pA pb peq ed ee ec nc nr ones repeat].
  cbn [rectify rectify_cone scalar_kind firstn skipn length ones repeat app orb le lA lb ld lc lP lq].
  cbn [peq ed ee ec eq_min eq_max]. unfold nthR, within. cbn [nth one OpsR].
  repeat split; lra.
Qed.
