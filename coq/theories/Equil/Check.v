(** Executable correspondence checkers for C10 (equilibration).

    (i)  [c_model]: the Gallina model of Equil/Model.v run at [OpsF] (binary64, same
         operation order as the Rust code) on the inputs the Rust code received, compared
         with what the Rust code left in [solver.data.{P,q,A,b,equilibration}].
         Code 0 = bit-identical (level A, information); 3 = not bit-identical but d, e, c within
         relative 2^-40 of the model's (operation order differs: a note); 1 = scalings differ.
    (ii) [c_props]: the statement of the property evaluated on the *Rust output alone*, in
         exact dyadic arithmetic (every finite binary64 is a dyadic): data = returned
         scalings applied to the user's data within the stated relative tolerance, bounds
         (either order of min/max) within (1 +- 2^-51) for d, c and (1 +- 2^-48) for e, e constant (within 2^-49 relative) on every cone that is not
         Zero/NN, zero rows/columns unscaled (exactly 1), inverses, positivity; with
         equilibration disabled everything exactly untouched.
    (iii) [c_strict_bounds], [c_strict_uniform]: the literal statement (bounds without
         slack; e bit-constant over a rectified cone) -- measured, see DESIGN F9. *)
From Coq Require Import List Arith ZArith NArith Bool Floats.
Import ListNotations.
Require Import Clarabel.Base.Ops Clarabel.Base.Dyadic Clarabel.Csc.Model Clarabel.Equil.Model.
Local Open Scope nat_scope.

Definition ofb (b : bool) : N := if b then 0%N else 1%N.
Definition maxl (l : list N) : N := fold_left N.max l 0%N.
Fixpoint fails (k : N) (l : list N) : list (N * N) :=
  match l with
  | [] => []
  | c :: r => if N.eqb c 0 then fails (N.succ k) r else (k, c) :: fails (N.succ k) r
  end.

Definition mkraw {T} (m n : N) (cp rv : list N) (nz : list T) : @raw T :=
  mkRaw (N.to_nat m) (N.to_nat n) (map N.to_nat cp) (map N.to_nat rv) nz.
Definition RF := @mkraw float.
Definition RD := @mkraw dy.
Arguments RF (m n cp rv)%N nz.
Arguments RD (m n cp rv)%N nz.

Definition mkcones (l : list (ckind * N)) : list cone :=
  map (fun p => (fst p, N.to_nat (snd p))) l.

(** Rust-side output record *)
Record out (T : Type) : Type := mkOut
  { oP : @raw T; oq : list T; oA : @raw T; ob : list T;
    od : list T; odinv : list T; oe : list T; oeinv : list T; oc : T }.
Arguments mkOut {T}. Arguments oP {T}. Arguments oq {T}. Arguments oA {T}. Arguments ob {T}.
Arguments od {T}. Arguments odinv {T}. Arguments oe {T}. Arguments oeinv {T}. Arguments oc {T}.

Fixpoint list_all2 {X} (f : X -> X -> bool) (a b : list X) : bool :=
  match a, b with
  | [], [] => true
  | x :: a', y :: b' => f x y && list_all2 f a' b'
  | _, _ => false
  end.

(** ** (i) model at binary64: BITWISE equality *)
Definition class_code (c : float_class) : N :=
  match c with
  | PNormal => 0 | NNormal => 1 | PSubn => 2 | NSubn => 3 | PZero => 4 | NZero => 5
  | PInf => 6 | NInf => 7 | NaN => 8
  end%N.
(** same bit pattern (finite values and infinities; the two zeros are distinguished; NaN matches
    NaN whatever the payload) *)
Definition fbits_eq (x y : float) : bool :=
  match PrimFloat.compare x y with
  | FEq => N.eqb (class_code (PrimFloat.classify x)) (class_code (PrimFloat.classify y))
  | FNotComparable => PrimFloat.is_nan x && PrimFloat.is_nan y
  | _ => false
  end.
(** |x - y| <= 1e-13 * max(|x|,|y|): used only by the diagnosis of a mismatch *)
Definition fclose (x y : float) : bool :=
  let d := PrimFloat.abs (PrimFloat.sub x y) in
  let m := if PrimFloat.ltb (PrimFloat.abs x) (PrimFloat.abs y) then PrimFloat.abs y else PrimFloat.abs x in
  PrimFloat.leb d (PrimFloat.mul 0x1.c25c268497682p-44%float m).

(** stored entries, in storage order: same rows, same values *)
Definition stored_all2 (f : float -> float -> bool) (a b : @csc float) : bool :=
  (nr a =? nr b) && (nc a =? nc b) &&
  list_all2 (list_all2 (fun x y : nat * float => (fst x =? fst y) && f (snd x) (snd y))) (cols a) (cols b).

Definition model_fields (f : float -> float -> bool) (o : out float) (p : @pdata float) : list bool :=
  [ stored_all2 f (decode (oP o)) (pP p); stored_all2 f (decode (oA o)) (pA p);
    list_all2 f (oq o) (pq p); list_all2 f (ob o) (pb p);
    list_all2 f (od o) (ed (peq p)); list_all2 f (odinv o) (edinv (peq p));
    list_all2 f (oe o) (ee (peq p)); list_all2 f (oeinv o) (eeinv (peq p));
    f (oc o) (ec (peq p)) ].
Definition model_rel (f : float -> float -> bool) (o : out float) (p : @pdata float) : bool :=
  forallb (fun b => b) (model_fields f o p).

(** relative 2^-40 (or the same bits: covers infinities and NaN) *)
Definition fclose40 (x y : float) : bool :=
  fbits_eq x y ||
  (let d := PrimFloat.abs (PrimFloat.sub x y) in
   let m := if PrimFloat.ltb (PrimFloat.abs x) (PrimFloat.abs y) then PrimFloat.abs y else PrimFloat.abs x in
   PrimFloat.leb d (PrimFloat.mul 0x1p-40%float m)).
Definition scalings_close (o : out float) (p : @pdata float) : bool :=
  list_all2 fclose40 (od o) (ed (peq p)) && list_all2 fclose40 (oe o) (ee (peq p))
  && fclose40 (oc o) (ec (peq p)).

(** Two levels.
    A (information): every number the implementation left in solver.data.{P,q,A,b,equilibration}
      has the bit pattern the model computes at binary64 (same operation order as transcribed).
    B (binding, this part of it): the scalings d, e, c agree with the model's within relative
      2^-40 -- re-associating floating-point operations moves them by ulps only, a different
      algorithm (other norms, other clip, missing square root ...) by much more.  The rest of B
      is [c_props] below: the statement of the property on the implementation's own output.
    Codes: 0 = A holds; 3 = A fails, scalings within 2^-40 (operation order differs from the
    transcription -- reported in a note, not a violation, provided [c_props] holds);
    1 = scalings differ from the model's beyond 2^-40. *)
Definition c_model (en : bool) (iters : N) (smin smax : float) (cs : list (ckind * N))
           (P : @raw float) (q : list float) (A : @raw float) (b : list float)
           (o : out float) : N :=
  let S := mkSettings en (N.to_nat iters) smin smax in
  let p := setup OpsF S (mkcones cs) (decode P) q (decode A) b in
  if model_rel fbits_eq o p then 0%N
  else if scalings_close o p then 3%N else 1%N.
(** diagnosis of a mismatch: which of P, A, q, b, d, dinv, e, einv, c differ bitwise, and which
    differ by more than relative 1e-13 *)
Definition c_model_diag (en : bool) (iters : N) (smin smax : float) (cs : list (ckind * N))
           (P : @raw float) (q : list float) (A : @raw float) (b : list float)
           (o : out float) : list bool * list bool :=
  let S := mkSettings en (N.to_nat iters) smin smax in
  let p := setup OpsF S (mkcones cs) (decode P) q (decode A) b in
  (model_fields fbits_eq o p, model_fields fclose o p).

(** ** (ii) the property on the Rust output, exact dyadic arithmetic *)
Definition OpsD : Ops dy := {|
  zero := d0; one := d1; add := dadd; sub := dsub; mul := dmul;
  div := fun a _ => a (* unused *); neg := dneg; abs := dabs; sqrt := fun a => a (* unused *);
  ltb := dltb; leb := dleb; eqb := deqb; ofZ := dofZ |}.

(** |x - y| <= k * 2^-52 * |y| *)
Definition dclose (k : Z) (x y : dy) : bool :=
  dleb (dabs (dsub x y)) (dmul (D k (-52)) (dabs y)).
Definition dget (A : @csc dy) (i j : nat) : dy := get OpsD A i j.
Definition dnth (l : list dy) (i : nat) : dy := nth i l d0.
Definition dpos (x : dy) : bool := dltb d0 x.

Definition all_upto (n : nat) (f : nat -> bool) : bool := forallb f (seq 0 n).

(** tolerance (in units of 2^-52) of the data identities: relative 2^-48 up to 8 passes, then one
    more 2^-52 per pass (each pass applies at most six roundings of 2^-53 to the quotient
    data / (product of stored scalings); in practice the increments become exactly 1 after a few
    passes: the largest discrepancy seen in 35k problems, 50 passes included, is below 2^-48) *)
Definition data_tol (iters : N) : Z := (Z.max 16 (Z.of_N iters + 8))%Z.

Definition data_ok (k : Z) (P : @csc dy) (q : list dy) (A : @csc dy) (b : list dy)
           (P' : @csc dy) (q' : list dy) (A' : @csc dy) (b' : list dy)
           (d e : list dy) (c : dy) : bool :=
  let n := nc A in let m := nr A in
  (nr P' =? n) && (nc P' =? n) && (nr A' =? m) && (nc A' =? n)
  && (length q' =? n) && (length b' =? m) && (length d =? n) && (length e =? m)
  && all_upto n (fun j => all_upto n (fun i =>
        dclose k (dget P' i j) (dmul c (dmul (dmul (dnth d i) (dget P i j)) (dnth d j)))))
  && all_upto n (fun j => all_upto m (fun i =>
        dclose k (dget A' i j) (dmul (dmul (dnth e i) (dget A i j)) (dnth d j))))
  && all_upto n (fun j => dclose k (dnth q' j) (dmul c (dmul (dnth d j) (dnth q j))))
  && all_upto m (fun i => dclose k (dnth b' i) (dmul (dnth e i) (dnth b i))).

Definition inverses_ok (d dinv : list dy) : bool :=
  (length d =? length dinv) &&
  forallb (fun p => dclose 1 (dmul (fst p) (snd p)) d1) (combine d dinv).

(** bounds with slack [sl] (a dyadic >= 0): lo*(1-sl) <= x <= hi*(1+sl) *)
Definition within (sl lo hi x : dy) : bool :=
  dleb (dmul lo (dsub d1 sl)) x && dleb x (dmul hi (dadd d1 sl)).
Definition bounds_ok2 (sl sle lo hi : dy) (d e : list dy) (c : dy) : bool :=
  forallb (within sl lo hi) d && forallb (within sle lo hi) e && within sl lo hi c.
Definition bounds_ok (sl lo hi : dy) (d e : list dy) (c : dy) : bool := bounds_ok2 sl sl lo hi d e c.

Definition uniform_ok (rel : dy -> dy -> bool) (cs : list cone) (e : list dy) : bool :=
  forallb (fun kr => match kr with (k, off, n) =>
             scalar_kind k ||
             forallb (fun i => rel (dnth e i) (dnth e off)) (seq off n) end)
          (cone_ranges 0 cs).

Definition is0 (x : dy) : bool := deqb x d0.
Definition col_stored_zero (A : @csc dy) (j : nat) : bool :=
  forallb (fun en => is0 (snd en)) (nth j (cols A) []).
Definition row_stored_zero (A : @csc dy) (i : nat) : bool :=
  forallb (fun c => forallb (fun en : nat * dy => negb (fst en =? i) || is0 (snd en)) c) (cols A).
(** zero columns of [P;A] (P symmetric, stored upper-triangular) keep d = 1; zero rows of A
    inside a Zero/NN cone keep e = 1 *)
Definition zero_unscaled_ok (cs : list cone) (P A : @csc dy) (d e : list dy) : bool :=
  all_upto (nc A) (fun j =>
     negb (col_stored_zero P j && row_stored_zero P j && col_stored_zero A j)
     || deqb (dnth d j) d1)
  && forallb (fun kr => match kr with (k, off, n) =>
        negb (scalar_kind k) ||
        forallb (fun i => negb (row_stored_zero A i) || deqb (dnth e i) d1) (seq off n) end)
      (cone_ranges 0 cs).

Definition dlist_eqb (a b : list dy) : bool := list_all2 deqb a b.
Definition dense_deqb (a b : @csc dy) : bool :=
  (nr a =? nr b) && (nc a =? nc b) &&
  list_all2 dlist_eqb (to_dense OpsD a) (to_dense OpsD b).
Definition all_one (l : list dy) (n : nat) : bool := (length l =? n) && forallb (fun x => deqb x d1) l.

(** slack of the bound relation on the binary64 output: d and c are formed by clip-then-multiply
    (two roundings): 2 eps = 2^-51; a rectified e_i is a rounded mean of up to numel rows times
    (1/e_i)*e_i (numel + 2 roundings): 2^-48 covers cones of up to 28 rows *)
Definition slack : dy := D 1 (-51).
Definition slack_e : dy := D 1 (-48).

(** what the bound theorems say for the given settings (C10_equil_bounds_gen, any 0 < min, max,
    in either order): with lo = min(min,max), hi = max(min,max):
      1 in [lo,hi]           -> d, e, c in [lo,hi] for every max_iter;
      otherwise, max_iter>=1 -> d, e in [lo,hi]; c in [lo,hi] or c = 1;
      otherwise              -> d = e = c = 1. *)
Definition bounds_clause (iters : N) (smin smax : dy) (d e : list dy) (c : dy) : bool :=
  let lo := dmin smin smax in let hi := dmax smin smax in
  if dleb lo d1 && dleb d1 hi then bounds_ok2 slack slack_e lo hi d e c
  else if N.ltb 0 iters then
    forallb (within slack lo hi) d && forallb (within slack_e lo hi) e
    && (within slack lo hi c || deqb c d1)
  else forallb (fun x => deqb x d1) d && forallb (fun x => deqb x d1) e && deqb c d1.

(** [cs] are the cones as the *user* gave them. *)
Definition c_props (en : bool) (iters : N) (smin smax : dy) (cs : list (ckind * N))
           (P : @raw dy) (q : list dy) (A : @raw dy) (b : list dy) (o : out dy) : N :=
  let cs := mkcones cs in
  let Pm := decode P in let Am := decode A in
  let P' := decode (oP o) in let A' := decode (oA o) in
  if en then
    ofb (data_ok (data_tol iters) Pm q Am b P' (oq o) A' (ob o) (od o) (oe o) (oc o)
         && forallb dpos (od o) && forallb dpos (oe o) && dpos (oc o)
         && inverses_ok (od o) (odinv o) && inverses_ok (oe o) (oeinv o)
         && bounds_clause iters smin smax (od o) (oe o) (oc o)
         && (negb (dleb smin d1 && dleb d1 smax) || zero_unscaled_ok cs Pm Am (od o) (oe o))
         && uniform_ok (dclose 8) cs (oe o))
  else
    ofb (dense_deqb P' Pm && dense_deqb A' Am && dlist_eqb (oq o) q && dlist_eqb (ob o) b
         && all_one (od o) (nc Am) && all_one (odinv o) (nc Am)
         && all_one (oe o) (nr Am) && all_one (oeinv o) (nr Am) && deqb (oc o) d1).

(** ** (iii) the literal statement (no slack), split by the operation that can round:
    [c_strict_clip]: d, c and the e of scalar-cone rows are produced by clip-then-multiply only;
    [c_strict_rect]: the e of rectified rows (mean, reciprocal, two products);
    [c_strict_uniform]: e bit-constant over every rectified cone. *)
Definition strict_applies (iters : N) (smin smax : dy) : bool :=
  let lo := dmin smin smax in let hi := dmax smin smax in
  (dleb lo d1 && dleb d1 hi) || N.ltb 0 iters.
Definition e_rows (want_scalar : bool) (cs : list cone) (e : list dy) : list dy :=
  flat_map (fun kr => match kr with (k, off, n) =>
              if Bool.eqb (scalar_kind k) want_scalar then firstn n (skipn off e) else [] end)
           (cone_ranges 0 cs).
Definition c_strict_clip (iters : N) (smin smax : dy) (cs : list (ckind * N)) (d e : list dy) (c : dy) : N :=
  let lo := dmin smin smax in let hi := dmax smin smax in
  ofb (negb (strict_applies iters smin smax)
       || (forallb (within d0 lo hi) d && forallb (within d0 lo hi) (e_rows true (mkcones cs) e)
           && (within d0 lo hi c || deqb c d1))).
Definition c_strict_rect (iters : N) (smin smax : dy) (cs : list (ckind * N)) (e : list dy) : N :=
  let lo := dmin smin smax in let hi := dmax smin smax in
  ofb (negb (strict_applies iters smin smax)
       || forallb (within d0 lo hi) (e_rows false (mkcones cs) e)).
Definition c_strict_uniform (cs : list (ckind * N)) (e : list dy) : N :=
  ofb (uniform_ok deqb (mkcones cs) e).
