#!/bin/sh
# Regenerates _CoqProject (all theories/**/*.v) and the Makefile; then builds the given
# targets (default: all) with a full .vo build (never -vos).
cd "$(dirname "$0")"
{
  echo "-Q theories Clarabel"
  echo "-arg -w -arg -notation-overridden,-deprecated-hint-without-locality,-deprecated-instance-without-locality,-inexact-float"
  find theories -name '*.v' | LC_ALL=C sort
} > _CoqProject.new
if ! cmp -s _CoqProject.new _CoqProject; then mv _CoqProject.new _CoqProject; coq_makefile -f _CoqProject -o Makefile >/dev/null; else rm _CoqProject.new; fi
[ -f Makefile ] || coq_makefile -f _CoqProject -o Makefile >/dev/null
exec make -j16 "$@"
