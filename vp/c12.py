from . import core, standard

HEADER = """From Coq Require Import List ZArith NArith QArith Floats String. Import ListNotations.
Require Import Clarabel.Base.Ops Clarabel.Base.Dyadic Clarabel.Qdldl.Model Clarabel.Qdldl.Check Clarabel.Qdldl.ModelDriver Clarabel.Qdldl.CheckDriver.
Local Open Scope N_scope."""


def nontrivial(case):
    inp = case.get("input", {})
    if case["op"] == "driver":
        return inp["A"]["m"] + inp["A"]["n"] >= 2
    if case["op"] == "dispatch":
        return True
    if case["op"] == "invperm":
        return len(inp.get("perm", [])) >= 2
    return inp.get("n", 0) >= 2


def diagnose(chk, case):
    import re
    coq = case["coq"]
    m = re.match(r"^\(maxl \[(.*)\]\)$", coq, re.S)
    if not m:
        return None
    parts = [p.strip() for p in m.group(1).split(";\n ")]
    vals = chk.coq_show(HEADER, parts)
    names = [p.split(" ", 1)[0] for p in parts]
    return [{"conjunct": n, "index": k, "code": v[-40:]} for k, (n, v) in enumerate(zip(names, vals)) if "= 0" not in v][:6]


SPEC = {
    "props_file": "C12.v",
    "targets": ["theories/Props/C12.vo", "theories/Qdldl/Check.vo", "theories/Qdldl/CheckDriver.vo"],
    "header": HEADER,
    "harness_bin": "c12",
    "harness_prop": "c12",
    "nontrivial": nontrivial,
    "diagnose": diagnose,
    "what": "the sparse LDL' engine disagrees with the proved model (or with the exact residual bound / the bitwise refactor==fresh-factor comparison) on this script",
    "rule": "cases = scripts (new; then solve/update_values/scale_values/offset_values/refactor) on: exactness-domain matrices P'(I+L)D(I+L)'P with small-integer L and D=+-2^k (compared exactly at Q), ALL upper patterns n<=4 (thorough 5) x ALL orderings x sign vectors with diagonally dominant floats, random floats with update histories, KKT-shaped matrices, malformed inputs, and EVERY vector of {0..n}^n, n<=4, as ordering; a case is non-trivial when n>=2; distinct = distinct (op,input) JSON",
    "level": "proof",
    "explanation": "Unbounded Coq theorems (Props/C12.v) about the Gallina model of qdldl.rs; the model is tied to the Rust code by replaying every generated script on both (exact rationals in the exactness domain, binary64 otherwise), by exact dyadic residual checks that bypass the model, and by a Rust-vs-Rust bitwise comparison of refactor with a fresh factorisation.",
    "assumptions": ["f64 arithmetic is exact on the exactness-domain stream (small integers times powers of two)", "usize overflow is not modelled",
                    "the flat storage of L is modelled column-wise (LayoutOverflow excluded by the theorems, never observed in the correspondence)",
                    "the AMD ordering is an input of the model, validated to be a permutation"],
    "coq_timeout": 2400,
    "structure_code": 2,   # level A (bitwise / closeF identity with the transcribed-order model) and private-array differences: information only
    "per_shard": 1500,   # bounds the size of every cases_*.v (memory of one coqc); thorough has ~130k cases
}


def run(chk, replay=None):
    import os
    if replay:
        replay = os.path.abspath(replay)   # the harness runs in work/C12
    return standard.run_standard(chk, SPEC, replay)
