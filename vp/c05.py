from . import standard

HEADER = """From Coq Require Import List ZArith NArith. Import ListNotations.
Require Import Clarabel.Base.Dyadic Clarabel.Newton.Check Clarabel.Cross.Check."""


def nontrivial(case):
    st = case.get("input", {}).get("status", [0, 0])
    return st[0] == 1 and st[1] == 1


def post(chk, recs, cases):
    # aggregate robustness of the variants of planted strictly feasible bases: a variant that
    # ends without a verdict is not an inconsistency by itself, but too many of them are
    from .c06 import critical_failures
    feas = [c for c in cases if c.get("input", {}).get("status", [0, 0])[0] == 1]
    nov = [c for c in feas if c["input"]["status"][1] in (0, 7, 8, 9, 10)]
    kcrit = critical_failures(max(len(feas), 1))
    chk.cov["variants_without_verdict"] = {"of_solved_bases": len(feas), "without_verdict": len(nov), "critical": kcrit,
                                           "examples": [{"label": c["input"]["label"], "variant": c["input"]["variant"], "status": c["input"]["status"]} for c in nov[:5]]}
    # variants that change nothing numerically hard (settings toggles, backends, permutations,
    # splitting / merging, moderate objective scalings, P given in full): on the unchanged tree no
    # such variant of a solved base ever ended without a verdict (seeds 1..5: 0 of ~400 each), so
    # three or more in one run are reported.  Extreme objective scalings (2^+-24) and the
    # non-default-tolerance pairs stay under the binomial rule below.
    def mild(c):
        v = c["input"].get("variant", "")
        return not (v.startswith("objective scaled by 16777216") or v.startswith("objective scaled by 0.00000005960464477539")
                    or v.startswith("tolerances"))
    novm = [c for c in nov if mild(c)]
    chk.cov["variants_without_verdict"]["mild_without_verdict"] = len(novm)
    if len(novm) >= 3:
        chk.violation({"property": "C05", "kind": "mild variants without verdict", "what": "equivalent configurations / formulations of solved problems (toggles, backends, permutations, moderate scalings) end without a verdict",
                       "count": len(novm), "examples": [{"label": c["input"]["label"], "variant": c["input"]["variant"], "status": c["input"]["status"]} for c in novm[:6]],
                       "input": novm[0]["input"]})
    if len(feas) >= 100 and len(nov) >= kcrit:
        chk.violation({"property": "C05", "kind": "variants without verdict", "what": "equivalent formulations of solved problems end without a verdict far more often than sampling noise allows",
                       "stats": chk.cov["variants_without_verdict"], "input": nov[0]["input"]})


SPEC = {
    "props_file": "C05.v",
    "extra_props_files": ["C05_cones.v"],
    "targets": ["theories/Props/C05.vo", "theories/Props/C05_cones.vo", "theories/Cross/Check.vo"],
    "header": HEADER,
    "harness_bin": "c05",
    "tag": "C05",
    "nontrivial": nontrivial,
    "post": post,
    "rule": "cases = (base problem, variant) pairs: 40 base problems (well-posed planted problems over all cone kinds, plus strongly primal- and dual-infeasible ones) x variants {presolve off, equilibration off, static regularisation off, faer backend, faer with 4 threads, auto backend with 1 thread, P given full symmetric, variables permuted, rows permuted inside scalar cones + NN cones split + cones reordered, adjacent NN cones merged, objective scaled by 2, 1/8, 3}; verdict class compared in Coq (c_class); when both runs end Solved their returned points are mapped back to base coordinates and the objective difference is bounded in exact dyadic arithmetic (c_cross) by the two gap tolerances plus the explicit residual slack of theorem C05_objectives_agree. Direct records: an identical call repeated is bit-for-bit identical, the same solver solved twice, 8 threads solving distinct problems concurrently reproduce the sequential results bit for bit, a solver solved after idle time and then again under a finite time limit returns the base verdict both times (idle time and earlier solves do not count against the limit). Non-trivial = both runs Solved; distinct = distinct (problem, variant).",
    "level": "proof",
    "structure_code": None,
    "explanation": "Coq theorems (reals, every dimension): the exact identity p(x1) - d(x2,z2) = 1/2 (x1-x2)'P(x1-x2) + s1'z2 + r_d2'x1 - r_p1'z2 for any two points of the same data, weak duality across runs with the explicitly computable slack, the resulting bound on the difference of two runs' primal objectives, and the effect of scaling the objective; Props/C05_cones.v: the cone side of the formulations - rows permuted inside a nonnegative cone or a second-order tail, cones reordered with their rows, adjacent nonnegative cones split / merged, and the dual point scaled with the objective stay in K / K* (every cone kind). The run applies the transformations in Rust, solves both formulations and decides agreement inside Coq on the returned points (exact dyadic arithmetic). Thread schedules, backends and concurrency are observed on the generated problems only (partial).",
    "assumptions": ["the maps taking a variant's solution back to base coordinates (permutations, division of z by the objective scale) are harness code",
                    "runtime variations (thread count, concurrent instances, faer's parallel reductions) are explored, not proved"],
}


def run(chk, replay=None):
    return standard.run_standard(chk, SPEC, replay)
