from . import core, standard

HEADER = """From Coq Require Import List ZArith NArith Floats. Import ListNotations.
Require Import Clarabel.Base.Ops Clarabel.Base.Dyadic Clarabel.Csc.Model Clarabel.Equil.Model Clarabel.Equil.Check."""


def nontrivial(case):
    inp = case.get("input", {})
    return bool(inp.get("enable")) and inp.get("iters", 0) >= 1 and len(inp.get("A", {}).get("nzval", [])) >= 1


def known_key(case):
    return {"strict_uniform": "F9-e-not-bit-constant", "strict_bounds": "F9-bounds-ulp",
            "literal_bounds": "bounds-need-min-le-1-le-max"}.get(case.get("op"))


def spec_digest():
    """the theorem statements live in Equil/Spec.v (Props/C10.v only names them), so the pin of
    the statements is a digest of that file with comments and white space removed"""
    import hashlib, os
    src = core.strip_comments(open(os.path.join(core.COQ, "theories", "Equil", "Spec.v")).read())
    return hashlib.sha256("".join(src.split()).encode()).hexdigest()


def post(chk, recs, cases):
    import os
    pin = os.path.join(core.VERIF, "vp", "pins", "C10.spec.sha256")
    if getattr(chk, "update_pins", False):
        open(pin, "w").write(spec_digest() + "\n")
    elif os.path.exists(pin) and open(pin).read().strip() != spec_digest():
        chk.violation({"property": "C10", "kind": "proof-or-tie-broken",
                       "broken": ["Equil/Spec.v (the statements of the C10 theorems) differs from its pinned digest vp/pins/C10.spec.sha256"]},
                      suffix="no-failing-input-found")
    for r in recs:
        if "f9" in r:
            chk.notes.append("F9 measurement on this run (Rust output, binary64): %s" % r["f9"])


SPEC = {
    "props_file": "C10.v",
    "targets": ["theories/Props/C10.vo", "theories/Equil/Check.vo"],
    "header": HEADER,
    "harness_bin": "c10",
    "harness_prop": "c10",
    "nontrivial": nontrivial,
    "known_key": known_key,
    "post": post,
    "rule": "cases = (check kind, problem) pairs; problems = fixed boundary instances for every (min/max, max_iter) combination + seeded random problems (n<=8, m<=16, all seven cone kinds, entries spanning 2^-75..2^75 / 1e-22..1e22 as powers of two and as general values, zero rows/columns, stored zeros, empty/diagonal/sparse/dense P, zero q) x settings (enable on/off, max_iter in {0,1,10,50}, min/max in {1e-4/1e4, 1/1, 1e-1/1e2, 1e-8/1e8}); each problem is checked four ways (model at binary64, property on the Rust output in exact dyadics, literal bounds, literal bit-constancy); a case is non-trivial when equilibration is enabled, runs at least one pass and A stores an entry; distinct = distinct (op,input) JSON",
    "level": "proof",
    "explanation": "Unbounded Coq theorems (Props/C10.v) state that the Gallina model of DefaultProblemData::equilibrate is an exact, positive, bounded, cone-preserving diagonal change of variables, for all data/cones/settings over the reals. The model is tied to the Rust code by running both on the same inputs: the model at primitive binary64 floats agrees with solver.data.{P,q,A,b,equilibration} (bit-identical on the unchanged tree, relation 1e-13 relative); and the statement of the property is evaluated on the Rust output itself in exact dyadic arithmetic (Base/Dyadic.v) inside Coq.",
    "assumptions": ["binary64 rounding is not analysed, only bounded at run time by the stated tolerances", "presolve and chordal decomposition are disabled or inert in the generated problems (cases they reduce are skipped and counted)", "usize overflow is not modelled"],
}


def run(chk, replay=None):
    # The literal-statement cases (strict_*, literal_bounds) fail on many inputs by design (F9);
    # keep one representative per known-finding key and put every other disagreement first, so
    # that the standard pipeline (which reports the first 20) can never lose a real one.
    orig = chk.coq_eval

    def coq_eval_grouped(*a, **k):
        bad, errors = orig(*a, **k)
        rest, keyed, counts = [], {}, {}
        for case, code in bad:
            key = known_key(case) if code != 2 else None
            if key is None:
                rest.append((case, code))
            else:
                counts[key] = counts.get(key, 0) + 1
                keyed.setdefault(key, (case, code))
        if counts:
            chk.notes.append("cases failing only the literal (slack-free) statement, by known-finding key: %s" % counts)
        n2 = sum(1 for _, code in rest if code == 2)
        if n2:
            chk.notes.append("%d model cases agree within relative 1e-13 but are not bit-identical (code 2 = harmless re-association of the floating-point operations)" % n2)
        return rest + list(keyed.values()), errors

    chk.coq_eval = coq_eval_grouped
    if replay:
        import os
        replay = os.path.abspath(replay)
    return standard.run_standard(chk, SPEC, replay)
