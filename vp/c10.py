from . import core, standard

HEADER = """From Coq Require Import List ZArith NArith Floats. Import ListNotations.
Require Import Clarabel.Base.Ops Clarabel.Base.Dyadic Clarabel.Csc.Model Clarabel.Equil.Model Clarabel.Equil.Check."""


def nontrivial(case):
    inp = case.get("input", {})
    return bool(inp.get("enable")) and inp.get("iters", 0) >= 1 and len(inp.get("A", {}).get("nzval", [])) >= 1


def extreme_swapped(inp):
    """min >= 1e100 and max <= 1e-100: with min > max the clip returns one of its bounds, every
    factor becomes 1e300 or 1e-300 and the scaled data overflow / underflow"""
    try:
        return float(inp.get("min", 1)) >= 1e100 and float(inp.get("max", 1)) <= 1e-100
    except Exception:
        return False


def known_key(case):
    if case.get("op") == "props" and extreme_swapped(case.get("input", {})):
        return "swapped-huge-bounds-overflow"
    return {"strict_uniform": "F9-rectified-e-not-bit-constant", "strict_rect": "F9-rectified-e-outside-bounds-ulp",
            "strict_clip": "F9-clip-multiply-outside-bounds-ulp",
            "literal_bounds": "bounds-need-min-le-1-le-max"}.get(case.get("op"))


def spec_digest():
    """the theorem statements live in Equil/Spec.v (whole file) and in the [Definition stmt_*]
    blocks of the other Equil files (Props/C10.v only names them); the pin of the statements is
    a digest of that text with comments and white space removed"""
    import hashlib, os, re, glob
    d = os.path.join(core.COQ, "theories", "Equil")
    txt = core.strip_comments(open(os.path.join(d, "Spec.v")).read())
    for f in sorted(glob.glob(os.path.join(d, "*.v"))):
        if os.path.basename(f) == "Spec.v":
            continue
        src = core.strip_comments(open(f).read())
        for m in re.finditer(r"^Definition (stmt_\w+|BlockUniform|ConeUniform|emul|kind_of|cone_of)\b.*?(?=^(?:Lemma|Theorem|Definition|Fixpoint|Section|End|Module|Require)\b)", src, re.S | re.M):
            txt += m.group(0)
    return hashlib.sha256("".join(txt.split()).encode()).hexdigest()


def diagnose(chk, case):
    if case.get("op") != "model":
        return None
    coq = case["coq"]
    if not coq.startswith("c_model "):
        return None
    v = chk.coq_show(HEADER, ["c_model_diag " + coq[len("c_model "):]])
    return {"fields": "P A q b d dinv e einv c", "(bitwise equal, within relative 1e-13)": v[0]}


def post(chk, recs, cases):
    import os
    pin = os.path.join(core.VERIF, "vp", "pins", "C10.spec.sha256")
    if getattr(chk, "update_pins", False):
        open(pin, "w").write(spec_digest() + "\n")
    elif os.path.exists(pin) and open(pin).read().strip() != spec_digest():
        chk.violation({"property": "C10", "kind": "proof-or-tie-broken",
                       "broken": ["Equil/Spec.v (the statements of the C10 theorems) differs from its pinned digest vp/pins/C10.spec.sha256"]},
                      suffix="no-failing-input-found")
    for r in recs:
        if "f9" in r:
            chk.notes.append("F9 measurement on this run (Rust output, binary64): %s" % r["f9"])


SPEC = {
    "props_file": "C10.v",
    "targets": ["theories/Props/C10.vo", "theories/Equil/Check.vo"],
    "header": HEADER,
    "harness_bin": "c10",
    "harness_prop": "c10",
    "nontrivial": nontrivial,
    "known_key": known_key,
    "diagnose": diagnose,
    "post": post,
    "rule": "cases = (check kind, problem) pairs; problems = corpus witnesses + fixed boundary instances for every (min/max, max_iter) combination incl. min > max, 1 outside [min,max], 1e-300/1e300 + seeded random problems (n<=8, m<=16, all seven cone kinds, entries spanning 2^-75..2^75 / 1e-22..1e22 as powers of two and as general values, zero rows/columns, stored zeros, empty/diagonal/sparse/dense P, zero q) + a creep stream (clip engaging with a generic cumulative factor, 2..8 passes) x settings (enable on/off, max_iter in {0,1,10,50}, min/max in {1e-4/1e4, 1/1, 1e-1/1e2, 1e-8/1e8} and 1 in 5 from {1e4/1e-4, 10/0.1, 2/0.5, 2/4, 0.25/0.5, 1e-300/1e300, 1e300/1e-300}); each problem is checked five ways (binary64 model: scalings within 2^-40 binding, bitwise as information, property on the Rust output in exact dyadics, literal bounds of the clip path, literal bounds of rectified rows, literal bit-constancy); a case is non-trivial when equilibration is enabled, runs at least one pass and A stores an entry; distinct = distinct (op,input) JSON",
    "level": "proof",
    "explanation": "Unbounded Coq theorems (Props/C10.v) state that the Gallina model of DefaultProblemData::equilibrate is an exact, positive, bounded, cone-preserving diagonal change of variables (including s in K <-> E s in K, z in K* <-> E^-1 z in K* over the cone predicates of Term/Spec.v), for all data/cones/settings over the reals. The model is tied to the Rust code by running both on the same inputs: two levels: (B, binding) the property evaluated exactly on the implementation's output plus d, e, c within 2^-40 of the model at primitive binary64 floats; (A, information) bitwise identity of solver.data.{P,q,A,b,equilibration} with that evaluation; the statement of the property is also evaluated on the Rust output itself in exact dyadic arithmetic (Base/Dyadic.v) inside Coq; the one-ulp departures of binary64 from the real-number conclusions are exact vm_compute theorems (C10_F9_*_refuted) and listed known findings.",
    "assumptions": ["no rounding-error analysis valid for all inputs: binary64 behaviour is covered by the bitwise tie on generated inputs and by exact witnesses", "presolve and chordal decomposition are disabled or inert in the generated problems (cases they reduce are skipped and counted)", "usize overflow is not modelled"],
}


def run(chk, replay=None):
    """Two-level tie.  Level B (binding): the property evaluated exactly on the implementation's
    output (op props) + the scalings within 2^-40 of the binary64 model (op model, code 1 when
    not).  Level A (information): bitwise identity with the model (op model code 0; code 3 = not
    bitwise, scalings close).  A code-3 case is a note, never a violation; if the property-level
    case of the same problem fails, that one is reported on its own."""
    orig = chk.coq_eval

    def coq_eval_levels(*a, **k):
        bad, errors = orig(*a, **k)
        cases = a[1] if len(a) > 1 else k.get("cases", [])
        n_model = sum(1 for c in cases if c.get("op") == "model")
        counts, kept = {}, []
        order_only = [case for case, code in bad if case.get("op") == "model" and code == 3]
        props_bad = {core.input_hash({"op": "x", "input": case.get("input")})
                     for case, code in bad if case.get("op") == "props"}
        for case, code in bad:
            if case.get("op") == "model" and code == 3:
                continue
            key = known_key(case)
            if key:
                counts[key] = counts.get(key, 0) + 1
            kept.append((case, code))
        n_a_fail = len(order_only) + sum(1 for case, code in bad if case.get("op") == "model" and code != 3)
        SPEC.setdefault("extra", {})["level_A_bitwise_identity_with_binary64_model"] = {
            "model_cases": n_model, "bit_identical": n_model - n_a_fail,
            "operation_order_differs_scalings_within_2^-40": len(order_only)}
        if order_only:
            with_b = sum(1 for c in order_only
                         if core.input_hash({"op": "x", "input": c.get("input")}) not in props_bad)
            chk.notes.append("level A: %d of %d problems are not bit-identical with the binary64 model although d, e, c agree "
                             "within 2^-40: operation order differs from the transcription; property holds (level B, "
                             "evaluated exactly on the implementation's output) on %d of them" % (len(order_only), n_model, with_b))
        if counts:
            chk.notes.append("cases failing only a literal / known-finding statement, by key: %s" % counts)
        return kept, errors

    chk.coq_eval = coq_eval_levels
    if replay:
        import os
        replay = os.path.abspath(replay)
    return standard.run_standard(chk, SPEC, replay)
