from . import term_common

SPEC = {
    "props_file": "C02.v",
    "targets": ["theories/Props/C02.vo", "theories/Term/Check.vo", "theories/Term/Cover.vo"],
    "fail_text": "infeasibility status but the returned certificate, re-evaluated exactly against the original data, fails the code's test read in user coordinates (cone membership, sign of b'z or q'x, relative norm bounds), or objectives are not NaN, or the scaled inner product is not c*kappa times the user-coordinates one",
    "direct_keys": [],
    "rule": "one evaluation = one solver run ending PrimalInfeasible or DualInfeasible, its certificate re-evaluated in exact dyadic arithmetic by the proved-sound checkers chk_farkas_p / chk_farkas_d against the user's original data; non-trivial = at least 2 variables or constraints; distinct = distinct problem JSON",
    "level": "proof",
    "explanation": "Coq theorems (Props/C02.v): soundness of the certificate checkers, the derivation of the user-coordinates inequalities from the scaled test of info.rs (dot-product invariance b^'z^ = c kappa b'z, norm identities), and farkas_sound: a certificate in K* with A'z = 0, b'z < 0 refutes feasibility of the ORIGINAL data (arbitrary products of zero, NN, SOC, exponential, power, generalised-power and PSD cones; quantitative version for ||A'z|| <= delta). Every run ending in an infeasibility status is certified inside Coq.",
    "assumptions": ["kappa and tau before normalisation are read through a cfg-guarded read-only hook in DefaultVariables::unscale", "IEEE rounding not analysed (Borderline band)", "power cones with non-dyadic exponents are outside the spec fragment"],
}


def run(chk, replay=None):
    return term_common.run_property(chk, SPEC, replay)
