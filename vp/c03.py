from . import term_common

SPEC = {
    "props_file": "C03.v",
    "targets": ["theories/Props/C03.vo", "theories/Term/Check.vo", "theories/Term/Cover.vo"],
    "fail_text": "a reported figure (obj_val, obj_val_dual, r_prim, r_dual, iterations, vector lengths, Almost* status) disagrees with its exact recomputation from the returned vectors and the original data beyond the stated tolerance",
    "direct_keys": ["lengths_ok", "keep_agree", "iterations_agree", "status_agree", "iterations_count_agree", "update_results_agree"],
    "rule": "one evaluation = one solver run (every terminal status), its reported figures recomputed in exact dyadic arithmetic by the proved-sound checker chk_report from the returned vectors and the user's original data; non-trivial = at least 2 variables or constraints; distinct = distinct problem JSON",
    "level": "proof",
    "explanation": "Coq theorems (Props/C03.v): soundness of chk_report (objective and residual figures within relative 2^-30 plus the stated rounding term), cost/residual un-scaling identities, Almost* statuses imply the reduced-tolerance inequalities on the info record, vector lengths after reverse_presolve. Every run is certified inside Coq; the status is tied bit-exactly to the decision model.",
    "assumptions": ["for infeasibility statuses the residual figures refer to the tau-normalised point; kappa/tau is read through the hook", "IEEE rounding not analysed"],
}


def run(chk, replay=None):
    return term_common.run_property(chk, SPEC, replay)
