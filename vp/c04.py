from . import standard, skel_common


def nontrivial(case):
    # a trace is non-trivial when the solve made at least one pass beyond the first head
    return case.get("coq", "").count("OHead") >= 2


SPEC = skel_common.spec(
    "C04", "C04.v",
    "cases = real solves with the event recorder armed: every boundary shape (no constraints, empty / singleton cones, zero rows, columns and matrices, duplicate and contradictory rows, extreme magnitudes) under five (max_iter, time_limit) settings, plus a seeded mixed stream over all cone kinds (feasible, primal- and dual-infeasible) with random limits, backends and settings; each trace is replayed through the Coq loop model (c_trace) and the final report through c_final; direct records: panics, hangs (60 s watchdog), vector lengths, MaxTime at the first boundary when time_limit = 0, rejection of inconsistent dimensions. Non-trivial = trace with at least two loop heads; distinct = distinct (problem, settings).",
    "Coq theorems about the loop model (all kernel answers): the loop exits within max_iter+2 passes, iterations <= max_iter at every head and in the report, the final status is terminal, MaxTime is taken at the first head after the clock passes the limit. The model's control flow is tied to solver.rs / info.rs by replaying every recorded event trace through it inside Coq (exact match of every branch decision, counter, status, roll-back, extra line).",
    nontrivial)


def run(chk, replay=None):
    return standard.run_standard(chk, SPEC, replay)
