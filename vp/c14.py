from . import core, standard

HEADER = """From Coq Require Import List ZArith NArith Floats. Import ListNotations.
Require Import Clarabel.Base.Ops Clarabel.Nonsym.Model Clarabel.Nonsym.FloatTrans Clarabel.Nonsym.Check."""


def nontrivial(case):
    # every generated case evaluates the implementation at a non-degenerate point; the unit
    # initialisation of the exponential cone has no input and is the only constant case
    return case["op"] != "exp_unit"


def known_key(case):
    # F4 (known finding, not repaired): the generalised power cone's primal gradient is not the
    # conjugate map when dim2 > 0.  Only that operation on such inputs is suppressed.
    if case.get("op") == "gp_gradp":
        inp = case.get("input", {})
        if len(inp.get("s", [])) > len(inp.get("alpha", [])):
            return "F4-genpow-gradient_primal-data.r"
    return None


SPEC = {
    "props_file": "C14.v",
    "targets": ["theories/Props/C14.vo", "theories/Nonsym/Check.vo"],
    "coq_timeout": 600,
    "header": HEADER,
    "harness_bin": "c14",
    "harness_prop": "c14",
    "nontrivial": nontrivial,
    "known_key": known_key,
    "what": "implementation output disagrees with the proved model / violates a barrier identity re-checked in Coq",
    "rule": "cases = (operation, input point) pairs over the exponential, power and generalised power cones: interior points of K and K* with magnitudes 1e-6..1e6, relative boundary margins 1e-9..1 (feasibility) and 1e-4..1 (derivatives), exponents alpha over (0,1) incl. 1e-3 and 1-1e-3, genpow dim1 2..5 / dim2 0..3, random directions and mu 1e-6..1e3, exact boundary points for the strict inequalities, small-integer 3x3 matrices; non-trivial = has an input point; distinct = distinct (op,input) JSON",
    "level": "proof",
    "explanation": "Coq theorems over the reals (Props/C14.v) state that the Gallina model of the barrier calculus (a line-by-line transcription of the Rust functions) computes the membership predicates, first/second/third derivatives, conjugate gradient and scaling matrices of the cones as defined mathematically. The model is tied to the Rust code by evaluating the same Gallina terms at binary64 (vm_compute; ln/exp/pow implemented in Coq floats) on the harness inputs and comparing with the Rust outputs in the barrier's local scale, and by re-checking the barrier identities on the Rust outputs themselves in exact dyadic arithmetic.",
    "assumptions": [
        "IEEE rounding is not analysed: the float comparison tolerances (design.d/C14.md) absorb rounding and a few ulp of difference in ln/exp/pow",
        "convergence of the Wright-omega and Newton-Raphson inner iterations is not proved; their outputs are certified per sample through the conjugacy identity",
    ],
}


def run(chk, replay=None):
    # standard.run_standard looks only at the first 20 disagreeing cases; the known finding F4
    # produces ~60 of them per run, which would hide any other violation.  Put the cases that
    # are NOT the known finding first.
    orig = chk.coq_eval

    def coq_eval_known_last(header, cases, **kw):
        bad, errors = orig(header, cases, **kw)
        bad.sort(key=lambda bc: 1 if known_key(bc[0]) else 0)
        return bad, errors
    chk.coq_eval = coq_eval_known_last
    return standard.run_standard(chk, SPEC, replay)
