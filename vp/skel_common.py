"""Shared pieces of the three solve-loop checks (C04, C07, C20): one harness binary (`skel`),
one cached run, cases filtered by property tag."""
import os
from . import standard

HEADER = """From Coq Require Import List ZArith NArith Floats. Import ListNotations.
Require Import Clarabel.Base.Dyadic Clarabel.Term.Eval Clarabel.Solver.Skeleton Clarabel.Solver.Check Clarabel.Solver.Interior Clarabel.Solver.InteriorAll Clarabel.Solver.StepLen Clarabel.Solver.Route Clarabel.Solver.Dims.
Open Scope float_scope."""

TARGETS = ["theories/Solver/Check.vo", "theories/Solver/Interior.vo", "theories/Solver/InteriorAll.vo", "theories/Solver/StepLen.vo", "theories/Solver/Route.vo", "theories/Solver/Dims.vo"]

ASSUMPTIONS = [
    "the numeric kernels are oracles of the loop model: theorems hold for every answer they can give, the run checks the implementation's control flow against the model on the answers it actually gave",
    "the guarded observe(..) calls (verif_hooks::trace) record faithfully and do not change behaviour",
    "runtime facts (no panic, no hang within 60 s, byte delivery to files/streams) are observed on the generated inputs only",
]


def spec(pid, props_file, rule, explanation, nontrivial, extra=None):
    s = {
        "props_file": props_file,
        "targets": ["theories/Props/%s" % props_file.replace(".v", ".vo")] + TARGETS,
        "header": HEADER,
        "harness_bin": "skel",
        "shared_run": "skel",
        # minimised / regression problems, solved first on every run
        "harness_args": ["--corpus", os.path.join(os.path.dirname(os.path.dirname(os.path.abspath(__file__))), "corpus", "C04")],
        "tag": pid,
        "nontrivial": nontrivial,
        "rule": rule,
        "level": "proof",
        "structure_code": None,
        "explanation": explanation,
        "assumptions": ASSUMPTIONS,
    }
    if extra:
        s.update(extra)
    return s
