"""Orchestration shared by all property checks (see DESIGN.md section 2.4).

Steps of a check: build the Coq development for the property (full .vo build), audit the
proofs (pinned statements, Print Assumptions allow-list, forbidden-token grep), build the
Rust harness against /repo's working tree with the hooks enabled, run the correspondence
(the harness runs the implementation, Coq evaluates the model on the same inputs with
vm_compute), apply the violation protocol, write the evidence file.
"""
import concurrent.futures
import hashlib
import json
import os
import re
import subprocess
import sys
import time

VERIF = os.path.dirname(os.path.dirname(os.path.abspath(__file__)))
COQ = os.path.join(VERIF, "coq")
WORK = os.path.join(VERIF, "work")
BUILD = os.path.join(VERIF, ".build")
HARNESS = os.path.join(VERIF, "harness")
REPO = os.path.join(os.path.dirname(VERIF), "repo")
NCPU = min(16, os.cpu_count() or 4)
COQC_MEM_KB = 10 * 1024 * 1024   # 10 GB per coqc evaluating correspondence cases

ALLOWED_AXIOMS = {
    # the classical real numbers of the standard library
    "ClassicalDedekindReals.sig_forall_dec",
    "ClassicalDedekindReals.sig_not_dec",
    "FunctionalExtensionality.functional_extensionality_dep",
    # classical logic used by Coquelicot / Interval / Flocq
    "Classical_Prop.classic",
    "ClassicalEpsilon.constructive_indefinite_description",
    "PropExtensionality.propositional_extensionality",
    "ProofIrrelevance.proof_irrelevance",
    "Eqdep.Eq_rect_eq.eq_rect_eq",
}
# primitive integers / floats: specification axioms of the kernel primitives
ALLOWED_PREFIXES = ("Uint63.", "PrimInt63.", "PrimFloat.", "FloatAxioms.", "Uint63Axioms.", "FloatOps.", "Sint63.")

FORBIDDEN = re.compile(
    r"\b(Admitted|admit|Axiom|Axioms|Parameter|Parameters|Conjecture|Conjectures|"
    r"Admit Obligations|Unset Guard Checking|Unset Positivity Checking|Unset Universe Checking|"
    r"bypass_check|type-in-type|impredicative-set)\b")


def sh(cmd, timeout=None, cwd=None, env=None):
    t0 = time.time()
    try:
        p = subprocess.run(cmd, shell=isinstance(cmd, str), cwd=cwd, env=env, timeout=timeout,
                           stdout=subprocess.PIPE, stderr=subprocess.STDOUT, text=True, errors="replace")
        return p.returncode, p.stdout, time.time() - t0
    except subprocess.TimeoutExpired as e:
        out = e.stdout if isinstance(e.stdout, str) else (e.stdout or b"").decode(errors="replace")
        return 124, out + "\n[timeout]", time.time() - t0


def strip_comments(src):
    out, depth, i = [], 0, 0
    while i < len(src):
        if src.startswith("(*", i):
            depth += 1
            i += 2
        elif src.startswith("*)", i) and depth > 0:
            depth -= 1
            i += 2
        else:
            if depth == 0:
                out.append(src[i])
            i += 1
    return "".join(out)


class Check:
    def __init__(self, pid, tier, seed):
        self.pid = pid
        self.tier = tier
        self.seed = seed
        self.t0 = time.time()
        self.violations = []      # (replay_path, suffix)
        self.known = []
        self.notes = []
        self.cov = {}
        self.assumptions = []
        os.makedirs(WORK, exist_ok=True)
        os.makedirs(os.path.join(VERIF, "evidence"), exist_ok=True)
        self.wdir = os.path.join(WORK, pid)
        os.makedirs(self.wdir, exist_ok=True)
        self.known_findings = json.load(open(os.path.join(VERIF, "known_findings.json")))

    def log(self, *a):
        print("[%s %6.1fs]" % (self.pid, time.time() - self.t0), *a, flush=True)

    # ------------------------------------------------------------------ Coq
    def build_coq(self, targets, timeout=1500):
        """Full .vo build of the given targets (paths relative to coq/)."""
        rc, out, dt = sh(["./mk.sh"] + targets, timeout=timeout, cwd=COQ)
        self.log("coq build %s rc=%d (%.1fs)" % (" ".join(targets), rc, dt))
        return rc == 0, out

    def audit(self, props_file, pins_file=None):
        """Audit theories/Props/<props_file>: every Theorem is listed, pinned, closed under
        allowed axioms; no forbidden vernacular anywhere under coq/theories."""
        path = os.path.join(COQ, "theories", "Props", props_file)
        src = strip_comments(open(path).read())
        thms = re.findall(r"^\s*(?:Theorem|Corollary)\s+([A-Za-z0-9_']+)", src, re.M)
        problems = []
        # forbidden tokens anywhere in the development
        for root, _, files in os.walk(os.path.join(COQ, "theories")):
            for f in files:
                if f.endswith(".v"):
                    body = strip_comments(open(os.path.join(root, f)).read())
                    for m in FORBIDDEN.finditer(body):
                        problems.append("forbidden token %r in %s" % (m.group(0), os.path.relpath(os.path.join(root, f), COQ)))
        # statement pins
        if pins_file is None:
            pins_file = os.path.join(VERIF, "vp", "pins", props_file.replace(".v", ".txt"))
        pinned = {}
        if os.path.exists(pins_file):
            for blk in open(pins_file).read().split("\n\n"):
                blk = blk.strip()
                if blk:
                    name, _, stmt = blk.partition(":")
                    pinned[name.strip()] = " ".join(stmt.split())
        mod = "Clarabel.Props." + props_file[:-2]
        lines = ["Require Import %s." % mod]
        for t in thms:
            lines.append('Goal True. idtac "@@THM %s". Abort.' % t)
            lines.append("Check %s." % t)
            lines.append('Goal True. idtac "@@ASSUME %s". Abort.' % t)
            lines.append("Print Assumptions %s." % t)
        lines.append('Goal True. idtac "@@END". Abort.')
        af = os.path.join(self.wdir, "audit_%s.v" % self.pid)
        open(af, "w").write("\n".join(lines) + "\n")
        rc, out, dt = sh(["coqc", "-noglob", "-Q", os.path.join(COQ, "theories"), "Clarabel", af], timeout=600, cwd=self.wdir)
        if rc != 0:
            problems.append("audit file failed to compile: " + out[-800:])
        axioms_used = {}
        statements = {}
        cur, mode, buf = None, None, []

        def flush():
            if cur is None:
                return
            txt = "\n".join(buf)
            if mode == "THM":
                statements[cur] = " ".join(txt.split())
            elif mode == "ASSUME":
                if "Closed under the global context" in txt:
                    axioms_used[cur] = []
                else:
                    names = re.findall(r"^([A-Za-z_][A-Za-z0-9_.']*)\s*:", txt, re.M)
                    axioms_used[cur] = [n for n in names if n not in ("Axioms", "Variables", "Opaque", "Transparent")]
        for ln in out.splitlines():
            m = re.match(r"@@(THM|ASSUME|END)\s*(\S*)", ln)
            if m:
                flush()
                mode, cur, buf = m.group(1), m.group(2), []
                if mode == "END":
                    cur = None
            else:
                buf.append(ln)
        flush()
        if getattr(self, "update_pins", False):
            os.makedirs(os.path.dirname(pins_file), exist_ok=True)
            with open(pins_file, "w") as f:
                for t in thms:
                    st = statements.get(t, "")
                    st = st.split(":", 1)[1].strip() if ":" in st else st
                    f.write("%s : %s\n\n" % (t, st))
            pinned = {}
            self.log("pins rewritten: %s" % pins_file)
        discharged = 0
        for t in thms:
            ok = True
            if t not in axioms_used:
                problems.append("no Print Assumptions output for %s" % t)
                ok = False
            else:
                for a in axioms_used[t]:
                    if a in ALLOWED_AXIOMS or a.startswith(ALLOWED_PREFIXES) or any(a.endswith("." + x.split(".")[-1]) and x.split(".")[-1] in a for x in ALLOWED_AXIOMS):
                        continue
                    problems.append("theorem %s depends on non-allow-listed axiom %s" % (t, a))
                    ok = False
            st = statements.get(t, "")
            st = st.split(":", 1)[1].strip() if ":" in st else st
            if pinned:
                if t not in pinned:
                    problems.append("theorem %s has no pinned statement" % t)
                    ok = False
                elif pinned[t] != st:
                    problems.append("statement of %s differs from its pin:\n   now:    %s\n   pinned: %s" % (t, st, pinned[t]))
                    ok = False
            if ok:
                discharged += 1
        for t in pinned:
            if t not in thms:
                problems.append("pinned theorem %s is missing from %s" % (t, props_file))
        self.cov["obligations"] = self.cov.get("obligations", 0) + max(len(thms), len(pinned))
        self.cov["discharged"] = self.cov.get("discharged", 0) + discharged
        self.cov.setdefault("theorems", []).extend(thms)
        allax = sorted({a for v in axioms_used.values() for a in v})
        self.cov["axioms_reported_by_Print_Assumptions"] = sorted(set(self.cov.get("axioms_reported_by_Print_Assumptions", [])) | set(allax))
        self.statements = statements
        # thorough tier: re-check the compiled proofs with the independent checker
        if self.tier == "thorough" and not getattr(self, "skip_coqchk", False):
            rc2, out2, dt2 = sh(["coqchk", "-silent", "-o", "-Q", os.path.join(COQ, "theories"), "Clarabel", mod], timeout=1800, cwd=COQ)
            m = re.search(r"\* Axioms:(.*?)\n\s*\n\* Constants/Inductives relying on type-in-type:(.*?)\n\s*\n\* Constants/Inductives relying on unsafe \(co\)fixpoints:(.*?)\n\s*\n\* Inductives whose positivity is assumed:(.*?)\n", out2, re.S)
            info = {"module": mod, "rc": rc2, "seconds": round(dt2, 1)}
            if m:
                ax = [a.strip() for a in m.group(1).split("\n") if a.strip() and a.strip() != "<none>"]
                info.update({"axioms": ax, "type_in_type": m.group(2).strip(), "unsafe_fixpoints": m.group(3).strip(), "assumed_positivity": m.group(4).strip()})
                for k in ("type_in_type", "unsafe_fixpoints", "assumed_positivity"):
                    if info[k] != "<none>":
                        problems.append("coqchk reports %s: %s" % (k, info[k]))
                for a in ax:
                    short = a.split(" ")[0]
                    if not (short in ALLOWED_AXIOMS or short.startswith(ALLOWED_PREFIXES) or any(short.endswith(x.split(".", 1)[-1]) for x in ALLOWED_AXIOMS)
                            or short.startswith(("Coq.", "Flocq.", "Interval.", "Coquelicot.", "mathcomp."))):
                        problems.append("coqchk: non-library axiom %s" % a)
            if rc2 == 124:
                # the independent re-check did not finish in its time budget (machine load; the
                # Interval / Coquelicot closure of C14 takes tens of minutes): recorded, not a failure -
                # the proofs themselves were compiled and audited above
                info["timed_out"] = True
                self.notes.append("coqchk on %s did not finish within %d s (recorded only)" % (mod, 1800))
            elif rc2 != 0:
                problems.append("coqchk failed on %s: %s" % (mod, out2[-600:]))
            self.cov.setdefault("coqchk", []).append(info)
            self.log("coqchk %s rc=%d (%.0fs)" % (mod, rc2, dt2))
        return problems

    # -------------------------------------------------------------- harness
    def build_harness(self, timeout=1800, bin="vharness", release=False):
        """Builds one harness binary (src/main.rs = vharness, src/bin/<bin>.rs otherwise) against
        the current working tree of the repository with the hooks enabled."""
        env = dict(os.environ)
        env["CARGO_NET_OFFLINE"] = "true"
        env["RUSTFLAGS"] = "--cfg clarabel_verif"
        cmd = ["cargo", "build", "--offline", "--bin", bin] + (["--release"] if release else [])
        rc, out, dt = sh(cmd, timeout=timeout, cwd=HARNESS, env=env)
        self.log("harness build rc=%d (%.1fs)" % (rc, dt))
        return rc == 0, out

    def run_harness(self, args, out_name, timeout=1800, bin="vharness", release=False):
        outp = os.path.join(self.wdir, out_name)
        if os.path.exists(outp):
            os.remove(outp)
        exe = os.path.join(BUILD, "target", "release" if release else "debug", bin)
        rc, out, dt = sh([exe] + args + ["--out", outp], timeout=timeout, cwd=self.wdir)
        self.log("harness %s rc=%d (%.1fs)" % (" ".join(args), rc, dt))
        recs = []
        if os.path.exists(outp):
            for ln in open(outp):
                ln = ln.strip()
                if ln:
                    try:
                        recs.append(json.loads(ln))
                    except Exception:
                        pass
        return rc, out, recs

    def repo_state_key(self, extra=""):
        """Hash of everything a harness run depends on: the repository's HEAD, its tracked and
        untracked modifications, the harness sources, seed and tier."""
        h = hashlib.sha1()
        for cmd in (["git", "-C", REPO, "rev-parse", "HEAD"], ["git", "-C", REPO, "diff", "HEAD"],
                    ["git", "-C", REPO, "status", "--porcelain"]):
            rc, out, _ = sh(cmd, timeout=120)
            h.update(out.encode())
        rc, out, _ = sh(["git", "-C", REPO, "ls-files", "--others", "--exclude-standard"], timeout=120)
        for f in out.split():
            try:
                h.update(open(os.path.join(REPO, f), "rb").read())
            except Exception:
                pass
        for root, _, files in sorted(os.walk(os.path.join(HARNESS, "src"))):
            for f in sorted(files):
                h.update(open(os.path.join(root, f), "rb").read())
        h.update(("%s|%s|%s" % (self.seed, self.tier, extra)).encode())
        return h.hexdigest()[:16]

    def run_harness_cached(self, args, name, bin, timeout=1800):
        """Several properties share one harness run (same binary, same inputs): the case file is
        kept under work/cache keyed by repo_state_key, so a change to the repository or the
        harness always triggers a fresh run."""
        key = self.repo_state_key(bin + " ".join(args))
        cdir = os.path.join(WORK, "cache")
        os.makedirs(cdir, exist_ok=True)
        cpath = os.path.join(cdir, "%s_%s.jsonl" % (name, key))
        if not os.path.exists(cpath):
            exe = os.path.join(BUILD, "target", "debug", bin)
            tmp = cpath + ".tmp%d" % os.getpid()
            rc, out, dt = sh([exe] + args + ["--out", tmp], timeout=timeout, cwd=cdir)
            self.log("harness %s %s rc=%d (%.1fs)" % (bin, " ".join(args), rc, dt))
            if rc != 0:
                if os.path.exists(tmp):
                    os.remove(tmp)
                return rc, out, []
            os.replace(tmp, cpath)
            # keep the cache small
            olds = sorted((f for f in os.listdir(cdir) if f.startswith(name + "_") and f.endswith(".jsonl")),
                          key=lambda f: os.path.getmtime(os.path.join(cdir, f)))
            for f in olds[:-6]:
                os.remove(os.path.join(cdir, f))
        else:
            self.log("harness %s: reusing cached run %s" % (bin, os.path.basename(cpath)))
        recs = []
        for ln in open(cpath):
            ln = ln.strip()
            if ln:
                try:
                    recs.append(json.loads(ln))
                except Exception:
                    pass
        return 0, "", recs

    # ---------------------------------------------------- Coq evaluation
    def coq_eval(self, header, cases, tag="cases", per_shard=None, timeout=1500, result_type="list N"):
        """cases: list of dicts with 'coq' (expression of type N).  Returns list of
        (case, code) for non-zero codes, plus list of shard errors."""
        if not cases:
            return [], []
        nshards = NCPU if len(cases) >= NCPU * 4 else max(1, len(cases) // 4)
        if per_shard:
            nshards = max(nshards, (len(cases) + per_shard - 1) // per_shard)
        shards = [[] for _ in range(nshards)]
        for k, c in enumerate(cases):
            shards[k % nshards].append(c)

        def run(si):
            sh_cases = shards[si]
            if not sh_cases:
                return si, 0, "", []
            fn = os.path.join(self.wdir, "%s_%s_%d.v" % (tag, self.pid, si))
            with open(fn, "w") as f:
                f.write(header + "\n")
                f.write("Definition cases : list N := [\n")
                f.write(";\n".join(c["coq"] for c in sh_cases))
                f.write("\n].\n")
                f.write('Goal True. idtac "@@RESULT". Abort.\n')
                f.write("Eval vm_compute in (fails 0%N cases).\n")
                f.write('Goal True. idtac "@@DONE". Abort.\n')
            # address-space cap: a pathological case must fail its shard, not exhaust the machine
            cmd = "ulimit -v %d; exec coqc -noglob -Q %s Clarabel %s" % (COQC_MEM_KB, os.path.join(COQ, "theories"), fn)
            rc, out, dt = sh(["bash", "-c", cmd], timeout=timeout, cwd=self.wdir)
            return si, rc, out, sh_cases

        bad, errors = [], []
        with concurrent.futures.ThreadPoolExecutor(max_workers=NCPU) as ex:
            for si, rc, out, sh_cases in ex.map(run, range(nshards)):
                if not sh_cases:
                    continue
                m = re.search(r"@@RESULT(.*)@@DONE", out, re.S)
                if rc != 0 or not m:
                    errors.append({"shard": si, "rc": rc, "output": out[-1500:]})
                    continue
                body = " ".join(m.group(1).split())
                for k, code in re.findall(r"\((\d+)(?:%N)?\s*,\s*(\d+)(?:%N)?\)", body):
                    bad.append((sh_cases[int(k)], int(code)))
        return bad, errors

    def coq_show(self, header, exprs, timeout=300):
        """Evaluate arbitrary expressions and return their printed values (diagnostics)."""
        fn = os.path.join(self.wdir, "show_%s.v" % self.pid)
        with open(fn, "w") as f:
            f.write(header + "\n")
            for k, e in enumerate(exprs):
                f.write('Goal True. idtac "@@SHOW %d". Abort.\nEval vm_compute in (%s).\n' % (k, e))
            f.write('Goal True. idtac "@@DONE". Abort.\n')
        rc, out, dt = sh(["coqc", "-noglob", "-Q", os.path.join(COQ, "theories"), "Clarabel", fn], timeout=timeout, cwd=self.wdir)
        vals = {}
        for m in re.finditer(r"@@SHOW (\d+)(.*?)(?=@@SHOW|@@DONE)", out, re.S):
            vals[int(m.group(1))] = " ".join(m.group(2).split())
        return [vals.get(k, "<no output: %s>" % out[-300:]) for k in range(len(exprs))]

    # ------------------------------------------------------ verdicts
    def violation(self, replay_obj, suffix=""):
        d = os.path.join(WORK, "replays")
        os.makedirs(d, exist_ok=True)
        h = hashlib.sha1(json.dumps(replay_obj, sort_keys=True, default=str).encode()).hexdigest()[:10]
        path = os.path.join(d, "%s_%s.json" % (self.pid, h))
        json.dump(replay_obj, open(path, "w"), indent=1, default=str)
        self.violations.append((path, suffix))

    def is_known(self, key):
        """True (and remembered for the KNOWN-FINDING line) iff `key` is a listed known finding."""
        for kf in self.known_findings.get("findings", []):
            if kf.get("property") == self.pid and kf.get("kind") == "known" and kf.get("key") == key:
                if key not in [k for k, _ in self.known]:
                    self.known.append((key, kf.get("text", key)))
                return True
        return False

    def known_or_violation(self, key, replay_obj, text):
        """key: stable identifier of the failing item; suppressed only if listed as known."""
        for kf in self.known_findings.get("findings", []):
            if kf.get("property") == self.pid and kf.get("kind") == "known" and kf.get("key") == key:
                if key not in [k for k, _ in self.known]:
                    self.known.append((key, kf.get("text", text)))
                return True
        self.violation(replay_obj)
        return False

    def finish(self, level, samples, evaluations, distinct_nontrivial, rule, explanation="", extra=None):
        cov = dict(self.cov)
        cov.update({
            "evaluations": int(evaluations), "distinct_nontrivial": int(distinct_nontrivial),
            "rule": rule, "samples": samples[:6] if samples else ["<none>"],
            "checker_cmd": "cd /verif/coq && ./mk.sh theories/Props/%s.vo  (coqc 8.16.1, full .vo build) ; coqc audit file with Print Assumptions ; coqc cases_*.v (vm_compute)" % self.pid,
            "trusted_base": [
                "Coq 8.16.1 kernel and its VM (vm_compute); no native_compute",
                "axioms: exactly those listed under axioms_reported_by_Print_Assumptions (standard-library axioms only)",
                "hand-written Gallina model tied to /repo by the correspondence run of this check (Rust harness + hooks under --cfg clarabel_verif)",
                "Rust harness (generators, canonicalisation, printing of Coq literals) and this Python orchestrator",
            ],
            "explanation": explanation,
            "notes": self.notes,
        })
        if extra:
            cov.update(extra)
        cov.setdefault("obligations", 0)
        cov.setdefault("discharged", 0)
        ev = {
            "property_id": self.pid, "tier": self.tier, "seed": int(self.seed), "level": level,
            "coverage": cov, "assumptions": self.assumptions,
            "wall_s": round(time.time() - self.t0, 2), "violations": len(self.violations),
        }
        json.dump(ev, open(os.path.join(VERIF, "evidence", "%s.json" % self.pid), "w"), indent=1, default=str)
        for key, text in self.known:
            print("KNOWN-FINDING: property=%s %s" % (self.pid, text))
        if self.violations:
            seen = set()
            for path, suffix in self.violations[:5]:
                if path in seen:
                    continue
                seen.add(path)
                print("VIOLATION property=%s replay=%s%s" % (self.pid, path, (" " + suffix) if suffix else ""))
            sys.stdout.flush()
            return 1
        self.log("OK: property held on everything explored (%d evaluations)" % evaluations)
        return 0


def input_hash(case):
    return hashlib.sha1(json.dumps([case.get("op"), case.get("input")], sort_keys=True).encode()).hexdigest()
