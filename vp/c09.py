from . import core, standard

HEADER = """From Coq Require Import List ZArith NArith Floats Bool. Import ListNotations.
Require Import Clarabel.Base.Ops Clarabel.Csc.Model Clarabel.Csc.Check.
Require Import Clarabel.Presolve.Model Clarabel.Presolve.Check."""


def _bits(s):
    import struct
    try:
        return struct.unpack(">d", bytes.fromhex(s))[0]
    except Exception:
        return None


def nontrivial(case):
    """a case is non-trivial when it exercises a non-default branch: some right-hand side is
    above the finite range (so a row is dropped or capped), or the history changes the bound"""
    inp = case.get("input", {})
    if case["op"] in ("build", "solve"):
        return any((_bits(x) or 0) > 1e2 for x in inp.get("b", []))
    if case["op"] in ("history", "ghistory"):
        return any(o.get("op") in ("set", "default") for o in inp.get("ops", []))
    if case["op"] == "collapse":
        return len(inp.get("cones", [])) >= 2
    return True


def diagnose(chk, case):
    coq = case.get("coq", "")
    if case.get("op") == "build" and coq.startswith("(c_build"):
        # show what the model computes for this input
        import re
        m = re.match(r"^\(c_build (\S+) (\S+) (\(RF .*?\)) (\[.*?\]) (\[.*?\]) \(RF", coq, re.S)
        if m:
            pe, inf, a, b, cones = m.groups()
            e = "let I := build OpsF %s eps64 ten %s (decode %s) %s %s in (encode (iA I), ib I, icones I, ikeep I)" % (pe, inf, a, b, cones)
            return {"model_says": chk.coq_show(HEADER, [e])[0][:3000]}
    return None


SPEC = {
    "props_file": "C09.v",
    "targets": ["theories/Props/C09.vo", "theories/Presolve/Check.vo"],
    "header": HEADER,
    "harness_prop": "c09",
    "harness_bin": "c09",
    "nontrivial": nontrivial,
    "diagnose": diagnose,
    "what": "the implementation's presolve (dropped rows / internal A, b, cones / restored s, z / captured bound) disagrees with the proved model on the property's observable",
    "rule": "cases = (operation, input) pairs: build = exhaustive enumeration of cone lists over the listed alphabet (length and row limits per tier) with all / extreme+sampled placements of threshold-ladder right-hand sides, plus seeded random larger problems; solve = seeded random feasible conic problems solved with presolve on and, hand-reduced, with presolve off; history = seeded set_infinity/default_infinity/build/solve sequences. A case is non-trivial when some right-hand side is 'large' (a row is dropped or capped) or the history changes the bound; distinct = distinct (op,input) JSON",
    "level": "proof",
    "explanation": "Unbounded Coq theorems (Props/C09.v) about the Gallina model of new_collapsed / make_reduction_map / reduce_cones / select / cap / reverse_presolve and of the global bound as a state cell. The model is tied to the Rust code by running both on the same inputs (binary64 primitive floats in Coq: the threshold comparison is the hardware comparison) and comparing the property's observables inside Coq by vm_compute.",
    "assumptions": ["small-integer f64 data: select/cap/expand involve no rounding; the threshold (1-10eps)*bound is computed with the same three binary64 operations in Coq's primitive floats",
                    "usize overflow is not modelled", "chordal decomposition is switched off (its interplay with presolve is C18's subject)",
                    "the infinity bound is a process-global: the harness is single-threaded"],
}


def _spec_hash():
    """The pins file pins `C09_x : Spec.stmt_x`; the stmt_x definitions live in Presolve/Spec.v
    (statements only), so that file's comment-stripped, whitespace-normalised text is pinned too."""
    import hashlib, os
    src = ""
    for f in ("Spec.v", "SemSpec.v"):
        src += core.strip_comments(open(os.path.join(core.COQ, "theories", "Presolve", f)).read())
    return hashlib.sha256(" ".join(src.split()).encode()).hexdigest()


def post(chk, recs, cases):
    import os
    pin = os.path.join(core.VERIF, "vp", "pins", "C09.spec.sha256")
    h = _spec_hash()
    if getattr(chk, "update_pins", False):
        open(pin, "w").write(h + "\n")
        chk.log("statement-file pin rewritten: %s" % pin)
        return
    old = open(pin).read().strip() if os.path.exists(pin) else None
    if old != h:
        chk.violation({"property": "C09", "kind": "proof-or-tie-broken",
                       "broken": ["Presolve/Spec.v (the statements behind the pinned theorem names) differs from its pin %s" % pin],
                       "searched": "all %d generated correspondence cases of this run" % len(cases)},
                      suffix="no-failing-input-found")
    # the statistics of the run must show that the interesting branches were reached
    st = next((r["stats"] for r in recs if "stats" in r), {})
    chk.cov["branch_counters"] = {k: v for k, v in st.items() if not k.startswith("build:enum")}


SPEC["post"] = post


def run(chk, replay=None):
    import os
    if replay:
        replay = os.path.abspath(replay)
    # small shards: a coqc process on a 15 MB cases file needs several GB
    orig = chk.coq_eval
    chk.coq_eval = lambda header, cases, **kw: orig(header, cases, per_shard=3000, **kw)
    return standard.run_standard(chk, SPEC, replay)
