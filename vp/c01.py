from . import term_common

SPEC = {
    "props_file": "C01.v",
    "targets": ["theories/Props/C01.vo", "theories/Term/Check.vo", "theories/Term/Cover.vo"],
    "fail_text": "status Solved but the returned (x,s,z), re-evaluated exactly against the original data, fail the documented termination test by more than the rounding slack",
    "direct_keys": ["lengths_ok", "keep_agree"],
    "rule": "one evaluation = one solver run ending Solved, re-evaluated in exact dyadic arithmetic by the proved-sound checker chk_termtest against the user's original P,q,A,b,cones; non-trivial = problem with at least 2 variables or constraints; distinct = distinct problem JSON (data + settings)",
    "level": "proof",
    "explanation": "Coq theorems (Props/C01.v): checker soundness chk_termtest = Holds -> TermTest over the reals on the original data (per-run certificate), the un-scaling algebra of the residuals/costs (internal scaled residual / (c tau) = user-coordinates residual of the returned point), and decision soundness of is_solved/check_convergence on the Gallina transcription of info.rs. Every solver run of the generated stream that ends Solved is certified by evaluating the checker inside Coq (vm_compute); the decision functions are tied bit-exactly on binary64.",
    "assumptions": ["IEEE rounding is not analysed: runs that meet the test only within the stated slack are counted Borderline", "power cones with exponents that are not short dyadics are outside the exact fragment (Unchecked)", "chordal decomposition disabled (quantifier of the property)"],
}


def run(chk, replay=None):
    return term_common.run_property(chk, SPEC, replay)
