"""The standard check pipeline for properties decided by: theorems about a hand-written
Gallina model + a correspondence run of that model against the implementation."""
import json
import os
from . import core


def run_standard(chk, spec, replay=None):
    """spec keys: props_file, targets, header, harness_prop, nontrivial(case)->bool, rule,
    level, explanation, assumptions, post(chk, recs, cases) optional."""
    pid = chk.pid
    proof_broken = []
    # 1+2. build the proofs
    ok, out = chk.build_coq(spec["targets"])
    if not ok:
        proof_broken.append("Coq build failed: " + out[-1500:])
    # 3. audit
    if ok:
        problems = chk.audit(spec["props_file"])
        proof_broken.extend(problems)
        for extra in spec.get("extra_props_files", []):
            proof_broken.extend(chk.audit(extra))
    # 4. harness
    hbin = spec.get("harness_bin", "vharness")
    hok, hout = chk.build_harness(bin=hbin)
    recs = []
    if hok:
        args = ([spec["harness_prop"]] if hbin == "vharness" else []) + ["--seed", str(chk.seed), "--tier", chk.tier]
        args += spec.get("harness_args", [])
        if replay:
            args += ["--replay", replay]
        if spec.get("shared_run") and not replay:
            rc, out2, recs = chk.run_harness_cached(args, spec["shared_run"], hbin, timeout=spec.get("harness_timeout", 3000))
        else:
            rc, out2, recs = chk.run_harness(args, "cases_%s.jsonl" % pid, timeout=spec.get("harness_timeout", 3000), bin=hbin)
        if rc != 0:
            proof_broken.append("harness run failed rc=%d: %s" % (rc, out2[-800:]))
    else:
        proof_broken.append("harness does not build against the current /repo tree: " + hout[-1500:])
    tag = spec.get("tag")
    cases = [r for r in recs if "coq" in r and (tag is None or tag in r.get("tags", []))]
    stats = [r for r in recs if "stats" in r]
    directs = [r["direct"] for r in recs if "direct" in r and (tag is None or r["direct"].get("prop") == tag)]
    # 5. correspondence
    bad, errors = ([], [])
    if ok and cases:
        ekw = {"per_shard": spec["per_shard"]} if spec.get("per_shard") else {}
        bad, errors = chk.coq_eval(spec["header"], cases, timeout=spec.get("coq_timeout", 1500), **ekw)
        for e in errors:
            proof_broken.append("a cases shard failed to evaluate: " + e["output"][-600:])
    # framework convention (BUILDING.md, used by most case checkers): result code 2 means "the
    # property's observable agrees, only a stored structure / the last bits of a float model
    # differ" and is information, never a violation.  A spec may move the code
    # (`structure_code`) or switch the convention off (`structure_code: None` explicitly, used by
    # the main-session checkers, whose failure codes are 1, 3, 4, ...).
    scode = spec["structure_code"] if "structure_code" in spec else 2
    structure_only = [b for b in bad if scode is not None and b[1] == scode]
    real_bad = [b for b in bad if scode is None or b[1] != scode]
    if structure_only:
        chk.notes.append("%d cases agree on the property's observable but differ from the model in stored structure (information only)" % len(structure_only))
    # violation protocol: every disagreement is looked at (listed known findings must not
    # crowd out anything else); at most 20 distinct violations are written out
    nviol = 0
    for case, code in real_bad:
        key = spec["known_key"](case) if "known_key" in spec else None
        if key and chk.is_known(key):
            continue
        if nviol >= 20:
            continue
        nviol += 1
        diag = spec["diagnose"](chk, case) if "diagnose" in spec else None
        robj = {"property": pid, "kind": "correspondence", "what": spec.get("what", "implementation output disagrees with the proved model on the property's observable"),
                "op": case.get("op"), "input": case.get("input"), "code": code, "coq": case.get("coq"), "diagnosis": diag,
                "replay_cmd": "./check %s --replay <this file>" % pid}
        chk.violation(robj)
    # verdicts computed on the implementation side (Rust vs Rust comparisons, panics, hangs)
    dbad = [d for d in directs if not d.get("ok")]
    nviol = 0
    for d in dbad:
        key = spec["direct_known_key"](d) if "direct_known_key" in spec else None
        if key and chk.is_known(key):
            continue
        if nviol >= 20:
            continue
        nviol += 1
        robj = {"property": pid, "kind": "direct", "what": d.get("what"), "input": d.get("input"),
                "replay_cmd": "./check %s --replay <this file>" % pid}
        chk.violation(robj)
    if "post" in spec and hok:
        spec["post"](chk, recs, cases)
    if proof_broken and not chk.violations:
        # a proof obligation or the correspondence machinery no longer checks and the search
        # (the correspondence cases above + post hooks) found no concrete failing input
        chk.violation({"property": pid, "kind": "proof-or-tie-broken", "broken": proof_broken,
                       "searched": "all %d generated correspondence cases of this run" % len(cases)},
                      suffix="no-failing-input-found")
    nontriv = {core.input_hash(c) for c in cases if spec["nontrivial"](c)}
    dkinds = {}
    for d in directs:
        k = d.get("what", "?")
        dkinds.setdefault(k, [0, 0])
        dkinds[k][0 if d.get("ok") else 1] += 1
    samples = [{"op": c["op"], "input": c["input"]} for c in cases[:: max(1, len(cases) // 5)]][:5]
    chk.assumptions = spec.get("assumptions", [])
    extra = {"input_distribution": stats[0]["stats"] if stats else {},
             "correspondence_cases": len(cases), "correspondence_disagreements": len(real_bad),
             "traces_validated_against_impl": len(cases),
             "direct_checks": {k: {"passed": v[0], "failed": v[1]} for k, v in dkinds.items()}}
    extra.update(spec.get("extra", {}))
    return chk.finish(spec["level"], samples, len(cases) + len(directs), len(nontriv), spec["rule"], spec.get("explanation", ""), extra)
