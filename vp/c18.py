import glob
import json
import os
from . import core, standard

HEADER = """From Coq Require Import List ZArith NArith. Import ListNotations.
Require Import Clarabel.Base.Dyadic Clarabel.Chordal.TreeSpec Clarabel.Chordal.E2E Clarabel.Chordal.DecompCheck Clarabel.Chordal.Check."""

CODES = {10: "returned vector lengths differ from the original problem", 11: "verdict differs between decomposition on and off",
         12: "objective differs between decomposition on and off beyond tolerance", 13: "returned point violates the ORIGINAL problem's KKT residual / gap bounds",
         14: "returned s is not in the original cone (tolerance)", 15: "returned z is not in the dual cone (completed matrix / clique blocks not PSD)",
         16: "the reference solve (decomposition off) fails the exact KKT test on the original data", 17: "primal objectives recomputed exactly from the two returned x differ", 18: "weak duality violated between the returned points of the runs with and without decomposition",
         20: "solve or decomposition with chordal decomposition enabled panicked / hung", 21: "reference solve (decomposition off) panicked / hung",
         31: "standard form: H differs from the model", 32: "augmented A differs from the model", 33: "augmented b differs from the model",
         34: "decomposed cone list differs from the model", 35: "reversed s is not the sum of the clique blocks", 36: "reversed z differs from the model",
         37: "reversed vectors do not have the original length", 38: "cone maps differ from the model", 39: "malformed decomposition output",
         40: "compact layout: an overlap tie joins rows of different original entries / a new row has no unique original row (hypotheses of cmp_primal_equiv)"}


def nontrivial(case):
    pr = case.get("input", {}).get("problem", {})
    return any(c.get("k") == "psd" and len(c.get("edges", [])) >= 1 for c in pr.get("cones", []))


def diagnose(chk, case):
    vals = chk.coq_show(HEADER, [case.get("coq", "0%N")])
    import re
    m = re.search(r"=\s*(\d+)", vals[0])
    code = int(m.group(1)) if m else -1
    return {"code": code, "meaning": CODES.get(code, "?"), "combo": case.get("input", {}).get("combo")}


def post(chk, recs, cases):
    for r in recs:
        if "stats" in r:
            chk.notes.append("run statistics: " + ", ".join("%s=%s" % kv for kv in sorted(r["stats"].items())))
    chk.notes.append("end-to-end tolerance: eps = 2^-23 * (1 + #overlap entries of the decomposition actually used) (2^-10 when a reduced-accuracy status is involved); primal residual <= eps*(1+|b|+|x|+2|s|); dual residual <= eps*(1+|A|_1)*(1+|q|+|x|+2|s|+|z|); |pobj-dobj| <= eps*((1+min(|pobj|,|dobj|)) + |b_finite|_1*(1+|q|+|x|+2|s|+|z|)); derivation in Chordal/E2E.v (the solver terminates on the DECOMPOSED problem; the reversed z differs from the dual that sits with the row data by the dual residuals of the tying columns). PSD membership: M + eps(1+max|M|) I positive definite, decided exactly by fraction-free elimination")
    chk.notes.append("runs with presolve off replace 1e20 bounds by the loose finite bound 1000 (the solver does not converge on 1e20 data with or without decomposition)")


SPEC = {
    "props_file": "C18.v",
    "targets": ["theories/Props/C18.vo", "theories/Chordal/DecompCheck.vo", "theories/Chordal/Check.vo"],
    "header": HEADER,
    "harness_bin": "c18",
    "harness_prop": "c18",
    "nontrivial": nontrivial,
    "diagnose": diagnose,
    "post": post,
    "what": "the decomposed problem / reversed solution produced by the implementation disagrees with the model, or the returned point fails the original problem's optimality conditions (exact dyadic re-evaluation)",
    "rule": "cases = (random sparse SDP with 1-3 PSD cones of order 3..12, banded/arrow/block/cycle/random/clique-tree patterns, Zero/Nonnegative/SecondOrder cones and 1e20 bounds before, between and after them, optional diagonal P, some primal infeasible) x (merge method x compact x complete_dual x presolve): all 24 combinations end-to-end per problem; synthetic integer-data cases compare the augmented data and reversed vectors with the model; non-trivial = some PSD cone has an off-diagonal structural entry; distinct = distinct (problem, settings) JSON",
    "level": "translation_validation",
    "explanation": "Index facts of the decomposition are proved for every valid clique tree (Props/C18.v). The executable model of the standard/compact augmentation and of both reversals (Chordal/Decomp.v) is compared exactly with the Rust code on integer data; every end-to-end solve with decomposition on is compared with decomposition off (verdict class, objective) and its returned (x,s,z) is checked against the ORIGINAL data inside Coq in exact dyadic arithmetic (residuals, gap, cone membership; PSD by exact elimination on the completed dual or on every clique block).",
    "assumptions": ["Agler/Grone decomposition-completion theorem is a premise of 'same verdict', not proved", "f64 arithmetic on small integers is exact (synthetic part)",
                    "PSD completion (LAPACK) is validated per run, not proved"],
    "harness_timeout": 3000,
}


def run(chk, replay=None):
    if replay is None:
        corpus = sorted(glob.glob(os.path.join(core.VERIF, "corpus", "C18", "*.json")))
        if corpus:
            allc = []
            for f in corpus:
                v = json.load(open(f))
                allc.extend(v["cases"] if isinstance(v, dict) and "cases" in v else [v])
            cf = os.path.join(chk.wdir, "corpus_C18.json")
            json.dump({"cases": allc}, open(cf, "w"))
            hok, hout = chk.build_harness(bin="c18")
            if hok:
                rc, out, recs = chk.run_harness(["--seed", str(chk.seed), "--tier", chk.tier, "--replay", cf], "corpus_cases_C18.jsonl", timeout=900, bin="c18")
                cases = [r for r in recs if "coq" in r]
                bad, errors = chk.coq_eval(HEADER, cases, tag="corpus")
                for case, code in bad:
                    chk.violation({"property": "C18", "kind": "corpus-regression", "input": case.get("input"), "code": code, "meaning": CODES.get(code, "?"), "coq": case.get("coq")})
                chk.notes.append("corpus: %d regression cases replayed, %d failing" % (len(cases), len(bad)))
    return standard.run_standard(chk, SPEC, replay)
