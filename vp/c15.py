"""C15 - cone step lengths are safe and tight (NN / SOC / zero / nonsymmetric backtracking /
composite; margins and shifts)."""
from . import core, standard

HEADER = """From Coq Require Import List ZArith NArith Floats Bool. Import ListNotations.
Require Import Clarabel.Base.Ops Clarabel.Base.Dyadic.
Require Import Clarabel.Cones.Vec Clarabel.Cones.NN Clarabel.Cones.SOC Clarabel.Cones.Step Clarabel.Cones.Check."""


def nontrivial(case):
    inp = case.get("input", {})
    op = case.get("op")
    if op in ("nn_step", "soc_step"):
        return any(v != 0 for v in inp.get("dz", [])) or any(v != 0 for v in inp.get("ds", []))
    if op == "backtrack":
        return inp.get("kind") in (0, 1, 2)
    return True


def diagnose(chk, case):
    import re
    m = re.match(r"^\(maxl \[(.*)\]\)$", case["coq"], re.S)
    if not m:
        return None
    parts = [p.strip() for p in m.group(1).split("; ") if re.match(r"^(c_|p_|ofb)", p.strip())]
    # split only at top-level checker boundaries
    parts = re.split(r";\s+(?=(?:c_|p_|ofb)\w*)", m.group(1))
    vals = chk.coq_show(HEADER, parts)
    return [{"conjunct": p[:300], "code": v} for p, v in zip(parts, vals) if "= 0" not in v][:6]


def known_key(case):
    """F13: _shift_to_cone_interior on a second-order cone with a component beyond 2^52: the margin
    z0 - ||z1|| and the two unit shifts are absorbed in binary64 (exact class: op shift_huge_soc)."""
    if case.get("op") == "shift_huge_soc":
        z = case.get("input", {}).get("z", [])
        if z and max(abs(v) for v in z) >= 2.0 ** 52:
            return "F13-shift-to-cone-interior-soc-absorption-beyond-2^52"
    if case.get("op") == "shift_huge_psd":
        m = case.get("input", {}).get("M", [])
        if m and max(abs(v) for row in m for v in row) >= 2.0 ** 52:
            return "F13-shift-to-cone-interior-soc-absorption-beyond-2^52"
    return None


SPEC = {
    # code 2 = within the stated float tolerance but not bit-identical (or, for _shift_to_cone_interior, a
    # different but valid shift amount): information only, as documented in design.d
    "structure_code": 2,
    "known_key": known_key,
    "props_file": "C15.v",
    "targets": ["theories/Props/C15.vo", "theories/Cones/Check.vo"],
    "header": HEADER,
    "harness_bin": "c15",
    "harness_prop": "c15",
    "nontrivial": nontrivial,
    "diagnose": diagnose,
    "what": "step length / margin / shift returned by the implementation disagrees with the proved model (bit-level or beyond the float tolerance) or fails the exact dyadic re-check of safety, cap or tightness",
    "rule": "cases = (cone, start point, direction, alpha_max[, backtracking settings]) tuples: NN dims 1-12 x 5 direction kinds x 4 alpha_max; SOC dims 2-12 x boundary distance {1,1e-4,1e-8} x magnitude {1,1e8,1e-8} x 6 direction kinds, plus exact integer/Pythagorean data hitting a==0, c==0, d==0 and perfect-square discriminants at three power-of-two scalings; the real backtrack_search driven with Coq-evaluable membership closures x step {0.5,0.8,0.95} x alpha_min {1e-4,1e-8}; exp/pow/genpow step_length re-checked through the feasibility hooks; composites of zero/NN/SOC[/exp/pow] blocks; margins and shifts of random block vectors. A case is non-trivial when the direction is not the zero vector (step cases) or the membership test depends on the point (backtracking); distinct = distinct (op,input) JSON",
    "level": "proof",
    "explanation": "Coq theorems over the reals (Props/C15.v) for every dimension: the NN ratio test and the SOC quadratic-root routine never exceed alpha_max, keep x+t*y in the cone for all t in [0,alpha], and return alpha_max or a boundary point; the backtracking search returns a feasible step or 0, alpha_init or one factor below an infeasible trial, and terminates; the composite returns a value bounded by every cone's answer; the interior shift leaves margin >= max(1,.)>0 for any input. The models are tied to the Rust code by running both on the same inputs (model at primitive binary64 floats, same operation order) and by re-checking the Rust outputs in exact dyadic arithmetic.",
    "assumptions": ["IEEE rounding is not analysed: the theorems are about the real-number reading of the model; the float model is compared with the implementation numerically (tolerance 2^-40 relative, bit-identical reported separately) and the implementation's outputs are re-checked exactly with tolerance 2^-36 relative to the magnitudes of the terms",
                    "NaN / infinite inputs and dimension-0 cones are outside the model",
                    "PSD cone: step length not modelled here (eigenvalue routine is external LAPACK code)",
                    "exp/pow/genpow membership tests are the implementation's own (hooks); their correctness is C14's subject"],
}


def run(chk, replay=None):
    import os
    if replay:
        replay = os.path.abspath(replay)  # the harness runs with cwd = work/<ID>
    return standard.run_standard(chk, SPEC, replay)
