from . import standard, skel_common


def nontrivial(case):
    return True


SPEC = skel_common.spec(
    "C07", "C07.v",
    "cases = (i) every iterate snapshot (s, z, tau, kappa as exact dyadics) of every traced solve whose internal cone list equals the user's, decided in Coq by c_interior_all for every cone kind: exactly (strict) for zero / nonnegative / second-order blocks; for exponential, power (short dyadic exponents; half of the generated ones), generalised power and PSD blocks by the exact sign conditions plus the certified membership tests of Term/Check.v at the recorded point or at the point moved by the relative allowance 2^-40; (ii) every call of backtrack_step_to_barrier (up to 30 per solve): the recorded barrier answers must be well formed (all false before the last, at most 50 trials) and the returned step must equal the model's step^k * alpha_init to a relative 2^-40 (c_barrier_bt); (iii) direct records: budget sweep on up to 45 long runs - for every k up to min(iterations, 10) the run limited to max_iter = k is compared bitwise (x, s, z, tau, kappa of the internal iterate) with the head of the long run that shows iteration k. distinct = distinct (problem, snapshot).",
    "Theorem C07_prefix_independent (loop model, all kernel answers): with budgets k <= K the two runs coincide until the first head with iter = k at which no verdict applies, where the k-run stops in exactly that state with MaxIterations; the run checks the consequence bitwise on the implementation. C07_interior_* state what the exact dyadic snapshot test certifies (strict positivity; s0 > 0 and s0^2 > |s1|^2); C07_interior_all_sound does so for every cone kind (cone_intP: sign conditions and certified membership over the reals, exponential cone through the enclosure of Term/LemmasExp.v, PSD through exact elimination, Term/LemmasPsd.v). C07_barrier_backtrack_result / _bounds: the barrier backtracking returns alpha_init * step^k, k <= 50, positive and not longer than alpha_init. Props/C07_cones.v (reals, every dimension): a step of calc_step_length's size keeps a strictly interior point of the nonnegative / second-order cone strictly interior (C07_{nn,soc}_step_keeps_interior, C07_{nn,soc}_calc_step_keeps_interior), the inductive step of the interior invariant for those cones.",
    nontrivial,
    {"extra_props_files": ["C07_cones.v"], "targets": ["theories/Props/C07.vo", "theories/Props/C07_cones.vo"] + skel_common.TARGETS,
     "assumptions": skel_common.ASSUMPTIONS + ["power / generalised power cones whose exponents are not dyadics k/64 are tested for the sign conditions only; the allowance 2^-40 (relative to the block's largest entry) is what 'up to rounding' means for the non-polyhedral cones"]})


def run(chk, replay=None):
    return standard.run_standard(chk, SPEC, replay)
