from . import standard, skel_common


def nontrivial(case):
    return True


SPEC = skel_common.spec(
    "C07", "C07.v",
    "cases = (i) every iterate snapshot (s, z, tau, kappa as exact dyadics) of every traced solve whose internal cone list equals the user's, decided exactly in Coq for zero / nonnegative / second-order cones (other cone kinds are present in the same vectors but not decided here); (ii) direct records: budget sweep on up to 45 long runs - for every k up to min(iterations, 10) the run limited to max_iter = k is compared bitwise (x, s, z, tau, kappa of the internal iterate) with the head of the long run that shows iteration k. distinct = distinct (problem, snapshot).",
    "Theorem C07_prefix_independent (loop model, all kernel answers): with budgets k <= K the two runs coincide until the first head with iter = k at which no verdict applies, where the k-run stops in exactly that state with MaxIterations; the run checks the consequence bitwise on the implementation. C07_interior_* state what the exact dyadic snapshot test certifies (strict positivity; s0 > 0 and s0^2 > |s1|^2). Props/C07_cones.v (reals, every dimension): a step of calc_step_length's size keeps a strictly interior point of the nonnegative / second-order cone strictly interior (C07_{nn,soc}_step_keeps_interior, C07_{nn,soc}_calc_step_keeps_interior), the inductive step of the interior invariant for those cones.",
    nontrivial,
    {"extra_props_files": ["C07_cones.v"], "targets": ["theories/Props/C07.vo", "theories/Props/C07_cones.vo"] + skel_common.TARGETS,
     "assumptions": skel_common.ASSUMPTIONS + ["interior membership for exponential / power / generalised power / PSD cones is not decided by this check (C14/C15 cover their step-length safety)"]})


def run(chk, replay=None):
    return standard.run_standard(chk, SPEC, replay)
