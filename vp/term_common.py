"""Shared pipeline of the checks C01, C02, C03 (termination test, infeasibility certificates,
truthful report).  One harness binary (`term`) makes one solver run per generated problem and
one Coq expression per run (`run_case ...`, Term/Check.v) that packs four verdicts base 8:
digit 0 = C01 chk_termtest, 1 = C02 chk_farkas, 2 = C03 chk_report, 3 = decision tie.
The run and its Coq evaluation are cached in work/term_cache keyed by (repository tree state
incl. dirty diff, harness + Coq checker sources, seed, tier, replay file), so the three checks
share one run."""
import fcntl
import glob
import hashlib
import json
import os
import time

from . import core

HEADER = """From Coq Require Import List ZArith NArith Floats. Import ListNotations.
Require Import Clarabel.Base.Ops Clarabel.Base.Dyadic Clarabel.Term.Eval Clarabel.Term.Model Clarabel.Term.Check Clarabel.Term.Cover.
Open Scope float_scope."""

DIGIT = {"C01": 0, "C02": 1, "C03": 2}
PART_NAMES = {
    0: ["lengths", "primal residual", "dual residual", "duality gap", "s in K", "z in K*"],
    1: ["length and c, kappa > 0", "cone membership of the certificate", "b'z (q'x) < -tol_abs/(c kappa)", "relative norm bound 1", "relative norm bound 2 / NaN objectives", "NaN objectives / dot invariance", "dot invariance"],
    2: ["lengths", "iterations <= max_iter", "objective values", "residual figures", "Almost* reduced tolerances"],
    3: ["decision model (binary64) reproduces the status"],
}
STATUS_C01 = ("Solved",)
STATUS_C02 = ("PrimalInfeasible", "DualInfeasible")


BRANCH_NAMES = {}
for _b, _ph in ((0, "full"), (20, "almost")):
    for _k, _n in enumerate(["solved via gap_abs", "solved via gap_rel", "not solved: ktratio > 1", "not solved: both gap tests fail",
                             "not solved: res_primal >= tol", "not solved: res_dual >= tol", "infeasibility gate closed",
                             "primal infeasible", "dual infeasible", "gate open, neither", "pinf fails on dot_bz",
                             "pinf fails on res_primal_inf", "dinf fails on dot_qx", "dinf fails on res_dual_inf"]):
        BRANCH_NAMES[_b + _k] = "check_convergence_%s: %s" % (_ph, _n)
    BRANCH_NAMES[_b + 14] = "check_convergence_%s: gap disjunction decided by gap_abs only" % _ph
    BRANCH_NAMES[_b + 15] = "check_convergence_%s: gap disjunction, both members hold" % _ph
BRANCH_NAMES[56] = "check_termination: previous-gap disjunction decided by prev_gap_abs only"
BRANCH_NAMES[57] = "check_termination: previous-gap disjunction, both members hold"
BRANCH_NAMES[58] = "check_termination: residual increase in res_dual only"
BRANCH_NAMES[59] = "check_termination: residual increase in res_primal only"
BRANCH_NAMES[65] = "check_termination: residual increase in both"
for _k, _n in enumerate(["poor-progress skipped: status already set", "poor-progress skipped: iter <= 1", "poor-progress skipped: no residual increase",
                         "poor-progress block entered", "InsufficientProgress: ktratio < 100 eps and prev gap_abs < tol",
                         "InsufficientProgress: ktratio < 100 eps and prev gap_rel < tol", "ktratio < 100 eps but previous gaps above tol",
                         "ktratio >= 100 eps", "divergence test skipped: ktratio >= 1", "InsufficientProgress: dual residual diverged",
                         "InsufficientProgress: primal residual diverged", "divergence test: neither",
                         "limits skipped: status already set", "MaxIterations", "MaxTime", "no limit hit"]):
    BRANCH_NAMES[40 + _k] = "check_termination: " + _n
for _k, _n in enumerate(["status not eligible (untouched)", "almost check from NumericalError", "almost check from InsufficientProgress",
                         "almost check from MaxIterations", "almost check from MaxTime"]):
    BRANCH_NAMES[60 + _k] = "post_process: " + _n


def _sha(*chunks):
    h = hashlib.sha1()
    for c in chunks:
        h.update(c if isinstance(c, bytes) else str(c).encode())
        h.update(b"\0")
    return h.hexdigest()


def _file_hash(paths):
    h = hashlib.sha1()
    for p in sorted(paths):
        h.update(p.encode())
        try:
            h.update(open(p, "rb").read())
        except OSError:
            h.update(b"<missing>")
    return h.hexdigest()


def corpus_dirs():
    return [d for d in (os.path.join(core.VERIF, "corpus", p) for p in ("C01", "C02", "C03")) if os.path.isdir(d)]


def corpus_files():
    return sorted(f for d in corpus_dirs() for f in glob.glob(os.path.join(d, "*.json")))


def tree_key(chk, replay):
    repo = core.REPO
    rc, head, _ = core.sh(["git", "-C", repo, "rev-parse", "HEAD"])
    rc, diff, _ = core.sh(["git", "-C", repo, "diff", "HEAD"])
    rc, stat, _ = core.sh(["git", "-C", repo, "status", "--porcelain"])
    untracked = [l[3:] for l in stat.splitlines() if l.startswith("??")]
    uh = _file_hash([os.path.join(repo, u) for u in untracked if os.path.isfile(os.path.join(repo, u))])
    src = _file_hash(glob.glob(os.path.join(core.HARNESS, "src", "*.rs")) + glob.glob(os.path.join(core.HARNESS, "src", "bin", "term.rs"))
                     + [os.path.join(core.HARNESS, "Cargo.toml")]
                     + glob.glob(os.path.join(core.COQ, "theories", "Base", "*.v"))
                     + [os.path.join(core.COQ, "theories", "Term", f) for f in ("Eval.v", "Model.v", "Spec.v", "Check.v", "Cover.v")]
                     + [os.path.abspath(__file__)])
    rh = _file_hash([replay]) if replay else _file_hash(corpus_files())
    return _sha(head.strip(), diff, stat, uh, src, chk.seed, chk.tier, rh)


def get_run(chk, replay):
    """Returns (recs, codes: {case id: packed code}, errors, info).  Uses / fills the cache."""
    cdir = os.path.join(core.WORK, "term_cache")
    os.makedirs(cdir, exist_ok=True)
    key = tree_key(chk, replay)
    cfile = os.path.join(cdir, key + ".json")
    with open(os.path.join(cdir, "lock"), "w") as lk:
        fcntl.flock(lk, fcntl.LOCK_EX)
        if os.path.exists(cfile):
            try:
                d = json.load(open(cfile))
                chk.log("shared run reused from cache %s (made by %s)" % (key[:10], d.get("made_by")))
                return d["recs"], {int(k): v for k, v in d["codes"].items()}, d["errors"], {"cached": True, "key": key, "harness_s": d.get("harness_s"), "coq_s": d.get("coq_s"), "hist": d.get("hist", [])}
            except Exception:
                pass
        args = ["--seed", str(chk.seed), "--tier", chk.tier]
        if replay:
            args += ["--replay", replay]
        elif corpus_dirs():
            args += ["--corpus", ",".join(corpus_dirs())]
        t0 = time.time()
        rc, out, recs = chk.run_harness(args, "cases_term.jsonl", timeout=3000, bin="term")
        th = time.time() - t0
        errors = []
        if rc != 0:
            errors.append("harness run failed rc=%d: %s" % (rc, out[-800:]))
        cases = [r for r in recs if "coq" in r]
        t0 = time.time()
        bad, errs = chk.coq_eval(HEADER, cases, tag="term", timeout=1500)
        tc = time.time() - t0
        chk.log("coq evaluation of %d runs: %.1fs" % (len(cases), tc))
        for e in errs:
            errors.append("a cases shard failed to evaluate: " + e["output"][-600:])
        codes = {c["id"]: code for c, code in bad}
        # branch coverage of the decision model: histogram of the branch ids every case drives it through
        t0 = time.time()
        covs = [c["input"]["cov"] for c in cases if c.get("input", {}).get("cov")]
        hist = []
        if covs:
            import re
            val = chk.coq_show(HEADER, ["cov_hist [" + ";\n".join(covs) + "]"], timeout=900)[0]
            hist = [int(x) for x in re.findall(r"(\d+)%N", val)]
            if len(hist) != 70:
                errors.append("branch-coverage histogram failed to evaluate: " + val[-300:])
                hist = []
        chk.log("branch coverage of %d cases: %.1fs" % (len(covs), time.time() - t0))
        # cases are stored without the (large) coq expression of agreeing cases
        slim = []
        for r in recs:
            if "coq" in r and r["id"] not in codes:
                r = dict(r)
                r["coq"] = ""
                if isinstance(r.get("input"), dict) and r["input"].get("cov"):
                    r["input"] = dict(r["input"])
                    r["input"]["cov"] = "1"
            slim.append(r)
        if not errors:
            json.dump({"recs": slim, "codes": codes, "errors": errors, "made_by": chk.pid, "harness_s": th, "coq_s": tc, "hist": hist}, open(cfile, "w"))
            # keep the cache small
            olds = sorted(glob.glob(os.path.join(cdir, "*.json")), key=os.path.getmtime)
            for o in olds[:-6]:
                os.remove(o)
        return slim, codes, errors, {"cached": False, "key": key, "harness_s": th, "coq_s": tc, "hist": hist}


def digits(code):
    return [(code >> (3 * k)) & 7 for k in range(4)]


def relevant(pid, case):
    if case.get("op") == "synth":
        return True
    st = case["input"]["status"]
    if pid == "C01":
        return st in STATUS_C01
    if pid == "C02":
        return st in STATUS_C02
    return True


def diagnose(chk, case):
    if not case.get("coq") or "run_case " not in case["coq"]:
        return None
    coq = case["coq"]
    if coq.startswith("(with_chain ") and " (c_chain " in coq:
        coq = coq[len("(with_chain "):coq.rindex(" (c_chain ")]
    expr = coq.replace("(run_case ", "(run_case_detail ", 1)
    val = chk.coq_show(HEADER, [expr])[0]
    import re
    groups = re.findall(r"\[([^\[\]]*)\]", val)
    out = []
    for gi, g in enumerate(groups[:4]):
        codes = [int(x) for x in re.findall(r"(\d+)%N", g)]
        for k, c in enumerate(codes):
            if c != 0:
                names = PART_NAMES.get(gi, [])
                out.append({"checker": ["chk_termtest", "chk_farkas", "chk_report", "c_decision"][gi],
                            "part": names[k] if k < len(names) else str(k),
                            "verdict": {1: "Fails", 2: "Unchecked", 3: "Borderline"}.get(c, c)})
    return out


def run_property(chk, spec, replay=None):
    pid = chk.pid
    if replay:
        replay = os.path.abspath(replay)
    dg = DIGIT[pid]
    proof_broken = []
    ok, out = chk.build_coq(spec["targets"])
    if not ok:
        proof_broken.append("Coq build failed: " + out[-1500:])
    else:
        proof_broken.extend(chk.audit(spec["props_file"]))
    hok, hout = chk.build_harness(bin="term")
    recs, codes, errors, rinfo = [], {}, [], {}
    if hok and os.path.exists(os.path.join(core.COQ, "theories", "Term", "Check.vo")):
        recs, codes, errors, rinfo = get_run(chk, replay)
        proof_broken.extend(errors)
    elif not hok:
        proof_broken.append("harness does not build against the current repository tree: " + hout[-1500:])
    cases = [r for r in recs if "coq" in r]
    stats = [r for r in recs if "stats" in r]
    abnormal = [r["abnormal"] for r in recs if "abnormal" in r]
    rel = [c for c in cases if relevant(pid, c)]
    counts = {"Holds": 0, "Fails": 0, "Borderline": 0, "Unchecked": 0, "decision_mismatch": 0, "direct_failures": 0}
    fails = []
    synth_bad = []
    for c in rel:
        if c.get("op") == "synth":
            code = codes.get(c["id"], 0)
            counts["synthetic_states"] = counts.get("synthetic_states", 0) + 1
            if code and (pid == "C03" or (pid == "C01" and code & 2) or (pid == "C02" and code & 4)):
                counts["synthetic_mismatch"] = counts.get("synthetic_mismatch", 0) + 1
                synth_bad.append(c)
            continue
        d = digits(codes.get(c["id"], 0))
        v = d[dg]
        counts[{0: "Holds", 1: "Fails", 2: "Unchecked", 3: "Borderline"}.get(v, "Fails")] += 1
        what = []
        if v == 1:
            what.append(spec["fail_text"])
        if d[3] == 1:
            counts["decision_mismatch"] += 1
            what.append("the final status is not what the decision model (check_convergence on the reported info figures) returns")
        direct = c["input"].get("direct", {})
        dbad = [k for k in spec["direct_keys"] if direct.get(k) is False]
        if pid == "C02" and direct.get("normalised") is False:
            dbad.append("normalised")
        if pid == "C03" and direct.get("normalised") is False and c["input"]["status"] not in STATUS_C02:
            dbad.append("normalised")
        if dbad:
            counts["direct_failures"] += 1
            what.append("direct facts violated: " + ", ".join(dbad))
        if what:
            fails.append((c, d, what))
    for c, d, what in fails[:8]:
        diag = diagnose(chk, c)
        inp = c["input"]
        robj = {"property": pid, "kind": "per-run certificate check", "what": what, "status": inp["status"],
                "label": inp.get("label"), "diagnosis": diag, "verdict_digits": d,
                "input": {"problem": inp["problem"], "resolve_after_update": inp.get("resolve_after_update")}, "outcome": inp.get("outcome"), "direct": inp.get("direct"),
                "replay_cmd": "./check %s --replay <this file>" % pid}
        key = None
        if pid == "C03" and inp["status"] in ("AlmostPrimalInfeasible", "AlmostDualInfeasible") and inp.get("outcome", {}).get("rollbacks", 0) > 0 \
                and diag and all(x["part"].startswith("Almost") for x in diag if x["verdict"] == "Fails"):
            key = "F7-almost-infeasible-after-rollback"
        if key:
            chk.known_or_violation(key, robj, key)
        else:
            chk.violation(robj)
    for c in synth_bad[:4]:
        chk.violation({"property": pid, "kind": "decision-model mismatch on a synthetic info state",
                       "what": "DefaultInfo::%s on the recorded figures returns status %s; the Gallina model (proved decision soundness) returns another status" % (
                           "post_process" if c["input"]["synth"]["post"] else "check_termination", c["input"]["status"]),
                       "state": c["input"]["synth"], "coq": c.get("coq"),
                       "note": "replay: the state is re-created by the generator from the seed; ./check %s reproduces it" % pid})
    nrel = max(1, len([c for c in rel if c.get("op") != "synth"]))
    if counts["Borderline"] > max(3, 0.10 * nrel) and not chk.violations:
        chk.violation({"property": pid, "kind": "too-many-borderline", "counts": counts,
                       "what": "more than 10% of the relevant runs meet the statement only within the rounding slack"},
                      suffix="no-failing-input-found")
    if proof_broken and not chk.violations:
        chk.violation({"property": pid, "kind": "proof-or-tie-broken", "broken": proof_broken,
                       "searched": "all %d solver runs of this run (per-run certificate checkers as oracle)" % len(cases)},
                      suffix="no-failing-input-found")
    if abnormal:
        chk.notes.append("%d solver runs panicked or hung (subject of C04; recorded, not judged here): %s" % (
            len(abnormal), "; ".join(a["problem"].get("label", "?") for a in abnormal[:3])))
    if counts["Unchecked"]:
        chk.notes.append("%d relevant runs contain a cone outside the exact fragment (generalised power cone whose exponents are not short dyadics): membership of that cone not certified" % counts["Unchecked"])
    solves = [c for c in rel if c.get("op") != "synth"]
    nontriv = {core.input_hash({"op": "solve", "input": c["input"]["problem"]}) for c in solves if c["input"]["size"] >= 2}
    nontriv |= {core.input_hash({"op": "synth", "input": c["input"]["synth"]}) for c in rel if c.get("op") == "synth"}
    samples = [{"status": c["input"]["status"], "label": c["input"]["label"], "n": c["input"]["n"], "m": c["input"]["m"], "cones": c["input"]["kinds"]}
               for c in solves[:: max(1, len(solves) // 5)]][:5]
    chk.assumptions = spec.get("assumptions", [])
    extra = {"input_distribution": stats[0]["stats"] if stats else {}, "solver_runs": len(cases), "relevant_runs": len(rel),
             "verdicts": counts, "shared_run": rinfo, "traces_validated_against_impl": len(rel),
             "correspondence_cases": len(rel), "correspondence_disagreements": len(fails) + len(synth_bad)}
    hist = rinfo.get("hist") or []
    if hist:
        extra["model_branch_hits"] = {BRANCH_NAMES[k]: hist[k] for k in sorted(BRANCH_NAMES)}
        unreached = [BRANCH_NAMES[k] for k in sorted(BRANCH_NAMES) if hist[k] == 0]
        extra["model_branches_unreached"] = unreached
        if unreached:
            chk.notes.append("decision-model branches not reached by any correspondence case: " + "; ".join(unreached))
    extra.update(spec.get("extra", {}))
    return chk.finish(spec["level"], samples, len(rel), len(nontriv), spec["rule"], spec.get("explanation", ""), extra)
