import os
from . import core, standard

HEADER = """From Coq Require Import List ZArith NArith. Import ListNotations.
Require Import Clarabel.Base.Ops Clarabel.Base.Dyadic Clarabel.Csc.Model Clarabel.Csc.Check.
Require Import Clarabel.Kkt.Spec Clarabel.Kkt.Model Clarabel.Kkt.Check."""

STRUCT_BITS = [(1, "K.colptr/rowval/nzval"), (2, "map P"), (4, "map A"), (8, "map Hsblocks"), (16, "sparse expansion maps"),
               (32, "diagP"), (64, "diag_full"), (128, "dsigns"), (256, "K is not a canonical CSC matrix"),
               (512, "Spec self-check: entry outside the matrix or duplicate tag (hypotheses of maps_partition_partial)"),
               (1024, "Spec self-check: entry list is not exactly the block pattern of [P A'; A -H] + expansions with a complete diagonal"),
               (2048, "Spec self-check: a column of the Triu entry list is not in non-decreasing row order (hypothesis buckets_sorted of the refinement step)")]
VALUE_BITS = [(1, "structure/maps/signs of the live KKT matrix differ from the intended layout"),
              (2, "P/A values or -Hs are not at the mapped positions, or a structural diagonal entry is not 0 (KKT copy not restored?)"),
              (4, "eliminating the auxiliary variables does not reproduce the cones' H (mul_Hs), or auxiliary pivot signs differ from dsigns"),
              (8, "LDL backend copy is not KKT + sign*eps on the diagonal / KKT elsewhere"),
              (16, "static regularisation enabled but eps <= 0")]


def nontrivial(case):
    inp = case.get("input", {})
    if not isinstance(inp, dict) or "A" not in inp:
        return False
    return len(inp["A"].get("rowval", [])) + len(inp["P"].get("rowval", [])) + len(inp.get("cones", [])) >= 1


def _bits(v, table):
    try:
        n = int(v.split("=")[1].split("%")[0].split(":")[0].strip())
    except Exception:
        return [v]
    return [name for b, name in table if n & b]


def diagnose(chk, case):
    coq = case["coq"].strip()
    out = {}
    if coq.startswith("(c_assemble "):
        body = coq[len("(c_assemble "):-1]
        vals = chk.coq_show(HEADER, ["d_spec " + body, "d_model " + body])
        out["implementation_vs_intended_layout(Spec)"] = _bits(vals[0], STRUCT_BITS)
        out["algorithm_model_vs_implementation"] = _bits(vals[1], STRUCT_BITS)
    elif coq.startswith("(N.max (c_values "):
        i = coq.index("(c_hident")
        body = coq[len("(N.max (c_values "):i].rstrip()[:-1]
        vals = chk.coq_show(HEADER, ["d_values " + body, coq[i:-1]])
        out["value_check"] = _bits(vals[0], VALUE_BITS)
        out["H_is_identity_after_reset (0 = yes)"] = vals[1]
    elif coq.startswith("(c_values "):
        body = coq[len("(c_values "):-1]
        vals = chk.coq_show(HEADER, ["d_values " + body])
        out["value_check"] = _bits(vals[0], VALUE_BITS)
    else:
        out["note"] = "the implementation panicked or produced non-integer structural values on a well-formed input"
    return out


SPEC = {
    "props_file": "C11.v",
    "targets": ["theories/Props/C11.vo", "theories/Kkt/Check.vo"],
    "header": HEADER,
    "harness_bin": "c11",
    "harness_prop": "c11",
    "nontrivial": nontrivial,
    "diagnose": diagnose,
    "what": "the assembled KKT matrix / its index maps / sign pattern / values differ from the intended matrix (Kkt/Spec.v), or the algorithm model no longer reproduces the implementation",
    "rule": "structural cases = (P pattern, A pattern, cone list, triangle): every upper-triangular P pattern for n<=3 (n<=4 thorough) incl. missing diagonals, every A pattern with few nonzeros for the listed small shapes, every cone list of length <=3 over a 15-cone alphabet (zero, nonneg, SOC 2..6, exp, pow, PSD, genpow with dim2=0..2), both triangles, plus seeded random large layouts with several SOC>4/genpow cones; value cases = driven DirectLDLKKTSolver updates at generated interior points and live solves stopped after 2-5 iterations; non-trivial = at least one stored entry or cone; distinct = distinct (op,input) JSON",
    "level": "proof",
    "explanation": "Coq theorems: Schur-complement identities of the sparse SOC / generalised-power expansions over the reals, sign-pattern, map-partition, complete-diagonal and dense-meaning theorems about the intended layout (Kkt/Spec.v), restore-after-regularisation theorem about the update pipeline model; the count/fill algorithm model (Kkt/Model.v) is tied to the intended layout and to the Rust code by an exhaustive small-scope + random correspondence evaluated inside Coq (exact), and the KKT values of driven and live solvers are re-checked in exact dyadic arithmetic.",
    "assumptions": ["usize overflow is not modelled", "value-level comparison of the Schur complement with mul_Hs uses tolerance 2^-40 relative to the largest entry of the cone's H block (u, v, d, eta^2 and mul_Hs are different float formulas for the same real operator)",
                    "the refinement Model.assemble = Spec (all sizes) is validated exhaustively in small scope and on random large layouts, not proved in general (assemble_refines_spec is partial)"],
    "coq_timeout": 1500,
}


def run(chk, replay=None):
    if replay:
        replay = os.path.abspath(replay)
    return standard.run_standard(chk, SPEC, replay)
