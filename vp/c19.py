"""C19 -- saving a problem to JSON and loading it back reproduces the problem.

Pipeline: build + audit Props/C19.v; build harness bin `c19`; replay corpus/C19, then the
generated streams.  The harness runs the implementation (save / load / solve, loads of
mutated files under catch_unwind + watchdog) and prints every observable as a Coq term;
the *text* of each file is parsed here with Python's json module (the JSON text layer is
trusted) into the model's AST and printed as a Coq term; all comparisons with the model
(Json/Model.v: encode, decode, save_data, load, ...) are evaluated inside Coq by
vm_compute through the checkers of Json/Check.v.
"""
import glob
import hashlib
import json
import math
import os

from . import core

HEADER = """From Coq Require Import List ZArith NArith String Floats. Import ListNotations.
Require Import Clarabel.Base.Ops Clarabel.Json.Model Clarabel.Json.Check.
Open Scope string_scope."""

KNOWN_TEXT = {
    "cones-collapsed": "saved cones are the solver's collapsed normal form of the user's cone list, not the literal list (same cone)",
    "b-capped": "entries of b above the solver's infinity bound (1e20) are saved as the bound",
    "time-limit-max": "time_limit = f64::MAX is loaded back as infinity",
}


class SkipModel(Exception):
    pass


class TextLayer(Exception):
    pass


def parse_text(text):
    """file text -> python tree: ('I', z) | ('F', x) | str | bool | None | list | ('O', pairs).
    Mirrors serde_json's tokenisation of numbers (integer literal in u64/i64 range -> integer,
    '-0' and out-of-range integers -> f64, overflowing floats -> error)."""
    def pint(s):
        z = int(s)
        if z == 0 and s.startswith("-"):
            return ("F", -0.0)
        if -(2 ** 63) <= z < 2 ** 64:
            return ("I", z)
        x = float(s)
        if math.isinf(x):
            raise TextLayer("number out of range")
        return ("F", x)

    def pfloat(s):
        x = float(s)
        if math.isinf(x):
            raise TextLayer("number out of range")
        return ("F", x)

    def pconst(s):
        raise TextLayer("constant " + s)

    try:
        return json.loads(text, parse_int=pint, parse_float=pfloat, parse_constant=pconst,
                          object_pairs_hook=lambda pairs: ("O", pairs))
    except (ValueError, RecursionError) as e:
        raise TextLayer(str(e))


def cfloat(x):
    if x == 0:
        return "(-0)%float" if math.copysign(1.0, x) < 0 else "0%float"
    return "(%s)%%float" % x.hex()


STRS = {}


def cstr(s):
    """string literals are bound once in the header (Coq's string notation is slow to elaborate)"""
    if any(ord(c) < 0x20 or ord(c) == 0x7f for c in s):
        raise SkipModel("string with control characters")
    lit = '"%s"' % s.replace('"', '""')
    if lit not in STRS:
        STRS[lit] = "str%d" % len(STRS)
    return STRS[lit]


def intern_strings(term):
    """replace the string literals printed by the harness by header-bound names"""
    import re
    return re.sub(r'"((?:[^"]|"")*)"%string', lambda m: cstr(m.group(1).replace('""', '"')), term)


def header():
    return HEADER + "\n" + "".join("Definition %s : string := %s.\n" % (v, k) for k, v in STRS.items())


def cjson(t):
    if t is None:
        return "JNull"
    if t is True:
        return "(JBool true)"
    if t is False:
        return "(JBool false)"
    if isinstance(t, str):
        return "(JStr %s)" % cstr(t)
    if isinstance(t, list):
        return "(JArr [%s])" % ";".join(cjson(x) for x in t)
    tag, v = t
    if tag == "I":
        if abs(v) >= 2 ** 62:
            raise SkipModel("integer literal beyond 2^62 (usize overflow is not modelled)")
        return "(JInt (%d)%%Z)" % v
    if tag == "F":
        return "(JFlt %s)" % cfloat(v)
    return "(JObj [%s])" % ";".join("(%s, %s)" % (cstr(k), cjson(x)) for k, x in v)


def ast_of(text):
    return "(%s : json)" % cjson(parse_text(text))


def b(x):
    return "true" if x else "false"


def rt_case(r):
    """one Coq expression (type N) per round trip; digits base 8: save, literal, load1, load2, verdict"""
    ast = ast_of(r["file"])
    infb = r["infbound"]
    parts = []
    # settings lists that are textually identical are bound once
    sets = {}

    def sref(txt):
        txt = intern_strings(txt)
        if txt not in sets:
            sets[txt] = "S%d" % len(sets)
        return sets[txt]

    def with_set(problem_term):
        # the settings list is the last argument of mkProblem
        i = problem_term.rindex(" [")
        return problem_term[:i + 1] + sref(problem_term[i + 1:-1]) + ")"
    r = dict(r)
    r["user"] = with_set(r["user"])
    for k in ("load1_set", "over"):
        if k in r:
            r[k] = sref(r[k])
    if "load2_view" in r:
        r["load2_view"] = with_set(r["load2_view"])
    parts.append("chk_save U I A %s %s %d%%N %s" % (b(r["reduced"]), b(r["eq"]), r["k"], infb))
    parts.append("(if %s then 0%%N else chk_literal U A %s)" % (b(r["reduced"]), infb))
    if r.get("load1") == "ok":
        parts.append("chk_load1 U A %s" % r["load1_set"])
    else:
        parts.append("1%N")
    if r.get("load2") == "ok":
        parts.append("chk_load2 A %s %s %s" % (r["over"], r["load2_view"], infb))
    else:
        parts.append("1%N")
    if r.get("load1") == "ok":
        exact = (not r["eq"]) and (not r["reduced"]) and (not r.get("live"))
        parts.append("chk_verdict %d%%N %d%%N %s %s %s" % (r["st0"], r["st1"], r["obj0"], r["obj1"], b(exact)))
    else:
        parts.append("1%N")
    body = " + ".join("%d * (%s)" % (8 ** i, p) for i, p in enumerate(parts))
    lets = "".join("let %s : settings (T:=float) := %s in " % (v, k) for k, v in sets.items())
    return "(%slet U := %s in let I := %s in let A := %s in (%s)%%N)" % (lets, r["user"], r["internal"], ast, body)


def digits(code):
    return [(code // 8 ** i) % 8 for i in range(5)]


def process(chk, recs, stats):
    """records -> Coq cases; direct violations (panics, hangs, text-layer errors) are raised here"""
    cases = []
    for r in recs:
        kind = r.get("kind")
        if kind == "rt":
            stats["rt"] += 1
            if "skipped" in r:
                stats["rt_skipped"] += 1
                continue
            replay = {"property": "C19", "kind": "rt", "input": r["input"]}
            if r.get("save") != "ok":
                chk.violation(dict(replay, what="save_to_file failed: %s" % r.get("save")))
                continue
            for which in ("load1", "load2"):
                if r.get(which) != "ok":
                    chk.violation(dict(replay, what="%s of a file written by save_to_file: %s" % (which, r.get(which))))
            try:
                coq = rt_case(r)
            except (SkipModel, TextLayer) as e:
                chk.violation(dict(replay, what="saved file not parseable by the text layer: %s" % e))
                continue
            tag = (r.get("tags") or ["?"])[0]
            stats["rt_by_tag"][tag] = stats["rt_by_tag"].get(tag, 0) + 1
            if r.get("reduced"):
                stats["rt_reduced"] += 1
            cases.append({"id": len(cases), "op": "roundtrip", "input": r["input"], "coq": coq, "tags": r.get("tags"),
                          "replay": replay, "file": r["file"]})
        elif kind == "fault":
            stats["fault"] += 1
            obs = r["observed"]
            replay = {"property": "C19", "kind": "fault", "base": r["base"], "mut": r["mut"]}
            if "text" in r:
                replay["text"] = r["text"]
            else:
                replay["hex"] = r["hex"]
            if r.get("solve") in ("panic", "hang"):
                if r.get("solve") == "panic" and (r["mut"].startswith("string") or r["base"].startswith("override:")):
                    stats["fault_panic"] += 1
                    chk.violation(dict(replay, what="a file accepted by load_from_file panics in the subsequent solve (string-valued setting near-miss)"))
                else:
                    stats["solve_after_load_abnormal"] += 1
            if obs in ("panic", "hang"):
                stats["fault_panic"] += 1
                chk.violation(dict(replay, what="load_from_file %s on a malformed file (must be an error)" % obs))
                continue
            if not r["syntax_ok"]:
                stats["fault_syntax_invalid"] += 1
                if not obs.startswith("err"):
                    chk.violation(dict(replay, what="a syntactically invalid file was loaded without error"))
                continue
            try:
                if "over_coq" in r:
                    stats["override_matrix"] += 1
                    replay["over"] = r["over"]
                    coq = "chk_fault_over %s %s %d%%N %s" % (ast_of(r["text"]), intern_strings(r["over_coq"]), 0 if obs == "ok" else 1,
                                                              intern_strings(r["loaded_set"]) if r.get("loaded_set") else "[]")
                else:
                    coq = "chk_fault %s %d%%N" % (ast_of(r["text"]), 0 if obs == "ok" else 1)
            except SkipModel:
                stats["fault_not_predicted"] += 1
                continue
            except TextLayer as e:
                stats["text_layer_disagreements"] += 1
                chk.notes.append("python json rejects a text serde_json accepts (%s): %s" % (e, r["mut"]))
                continue
            stats["fault_predicted"] += 1
            stats["fault_ok" if obs == "ok" else "fault_err"] += 1
            positional = ("positional" in r["mut"]) or ("as array" in r["mut"])
            cases.append({"id": len(cases), "op": "fault-positional" if positional else "fault", "input": {"base": r["base"], "mut": r["mut"], "sha": hashlib.sha1(r["text"].encode()).hexdigest()},
                          "coq": coq, "replay": replay, "observed": obs})
        elif kind == "sites":
            stats["sites"] += 1
            try:
                coq = "chk_sites %d%%N %s %s %s %s" % (r["which"], cstr(r["name"]), b(r["validator"]), b(r["builder"]), b(r["consumer"]))
            except SkipModel:
                continue
            cases.append({"id": len(cases), "op": "sites", "input": {"which": r["which"], "name": r["name"]}, "coq": coq,
                          "replay": {"property": "C19", "kind": "sites", "which": r["which"], "name": r["name"],
                                     "validator": r["validator"], "builder": r["builder"], "consumer": r["consumer"]}})
        elif kind == "sites_meta":
            stats["merge_consumer_reached"] = bool(r["merge_consumer_reached"])
        elif kind == "defaults":
            names = "[%s]" % ";".join('"%s"' % n for n in r["names"])
            cases.append({"id": len(cases), "op": "defaults", "input": {"names": r["names"]},
                          "coq": "chk_defaults %s %s" % (intern_strings(r["settings"]), intern_strings(names.replace('";', '"%string;').replace('"]', '"%string]'))),
                          "replay": {"property": "C19", "kind": "defaults"}})
    return cases


def judge(chk, bad, stats):
    for case, code in bad:
        rp = dict(case["replay"])
        rp["code"] = code
        rp["replay_cmd"] = "./check C19 --replay <this file>"
        if case["op"] == "roundtrip":
            sv, lit, l1, l2, vd = digits(code)
            if lit == 3:
                stats["known_cones_collapsed"] += 1
                chk.known_or_violation("cones-collapsed", dict(rp, what=KNOWN_TEXT["cones-collapsed"]), KNOWN_TEXT["cones-collapsed"])
            elif lit == 4:
                stats["known_b_capped"] += 1
                chk.known_or_violation("b-capped", dict(rp, what=KNOWN_TEXT["b-capped"]), KNOWN_TEXT["b-capped"])
            elif lit != 0:
                chk.violation(dict(rp, what="saved file does not decode"))
            if l1 == 5:
                stats["known_time_limit_max"] += 1
                chk.known_or_violation("time-limit-max", dict(rp, what=KNOWN_TEXT["time-limit-max"]), KNOWN_TEXT["time-limit-max"])
            elif l1 != 0:
                chk.violation(dict(rp, what="load with stored settings: loaded settings differ from the model / the user's"))
            if sv == 2:
                stats["save_bits_differ"] += 1
            elif sv != 0:
                chk.violation(dict(rp, what="saved file is not the user's problem (P upper triangle, q, A, b, cones, settings) within the round-trip tolerance"))
            if l2 != 0:
                chk.violation(dict(rp, what="load with override settings: settings not the override's, or loaded data differ from the file's contents as decoded by the model"))
            if vd == 2:
                stats["verdict_inconclusive_flips"] += 1
            elif vd != 0:
                chk.violation(dict(rp, what="solving the loaded problem gives a different verdict / objective than the original solver"))
        elif case["op"] == "fault-positional":
            # the positional (array) form of a struct depends on the declaration order of its
            # fields, which is not an observable the property talks about: information only
            stats["positional_form_disagreements"] += 1
        elif case["op"] == "sites":
            chk.violation(dict(rp, what="validator (DefaultSettings::validate / builder) or consumer (DefaultSolver::new) of an enum-like string setting disagrees with the model's exact-match predicates: the two sites no longer accept the same names"))
        elif case["op"] == "fault":
            chk.violation(dict(rp, what="model predicts %s for this syntactically valid file, load_from_file returned %s" % ("Err" if case["observed"] == "ok" else "Ok", case["observed"])))
        else:
            chk.violation(dict(rp, what="DefaultSettings::default() / field list differs from the model's schema"))


# ------------------------------------------------------------------ model-side structural mutants
def settings_object(defaults_rec):
    """the full settings object of a saved file, rebuilt from the schema (names + defaults; the
    record is checked against the model's schema inside Coq by chk_defaults)"""
    import re
    vals = re.findall(r'(VU (\d+)%N|VF ([^;\]]+)|VB (true|false)|VS "((?:[^"]|"")*)"%string)', defaults_rec["settings"])
    obj = {}
    for name, (_, u, f, bb, st) in zip(defaults_rec["names"], vals):
        if u:
            obj[name] = int(u)
        elif f:
            f = f.strip()
            if f == "infinity":
                obj[name] = 1.7976931348623157e308
            else:
                m = re.match(r"\((-?)0x([0-9a-f]+)p([-+]\d+)\)%float", f)
                obj[name] = float.fromhex("%s0x%sp%s" % (m.group(1), m.group(2), m.group(3))) if m else float(f.replace("%float", "").strip("()"))
        elif bb:
            obj[name] = (bb == "true")
        else:
            obj[name] = st
    obj["verbose"] = False
    return obj


def model_bases(settings):
    """one valid document per cone variant (n = 1) and one with every variant and the full settings"""
    def csc(m, n, colptr, rowval, nzval):
        return {"m": m, "n": n, "colptr": colptr, "rowval": rowval, "nzval": nzval}

    def doc(cones, m, sett):
        rows = list(range(0, m, 2))
        d = {"P": csc(1, 1, [0, 1], [0], [2.0]), "q": [1.0],
             "A": csc(m, 1, [0, len(rows)], rows, [1.0 + 0.5 * i for i in range(len(rows))]),
             "b": [1.0 + 0.25 * i for i in range(m)], "cones": cones}
        if sett is not None:
            d["settings"] = sett
        return d
    small = {"verbose": False, "max_iter": 50, "time_limit": 1.7976931348623157e308, "direct_solve_method": "qdldl", "tol_feas": 1e-7}
    variants = [("zero", {"ZeroConeT": 2}, 2), ("nonneg", {"NonnegativeConeT": 2}, 2), ("soc", {"SecondOrderConeT": 3}, 3),
                ("exp", {"ExponentialConeT": []}, 3), ("pow", {"PowerConeT": 0.25}, 3),
                ("genpow", {"GenPowerConeT": [[0.5, 0.5], 1]}, 3), ("psd", {"PSDTriangleConeT": 2}, 3)]
    bases = [("model:" + nm, doc([c], m, small)) for nm, c, m in variants]
    allc = [c for _, c, _ in variants]
    # every cone variant together (small settings) and, separately, the full 42-field settings
    # object on a one-cone problem: every field of both is mutated, in smaller files
    bases.append(("model:all", doc(allc, sum(m for _, _, m in variants), small)))
    bases.append(("model:settings", doc([{"NonnegativeConeT": 2}], 2, settings)))
    return bases


CONE_TAGS = ["ZeroConeT", "NonnegativeConeT", "SecondOrderConeT", "ExponentialConeT", "PowerConeT", "GenPowerConeT", "PSDTriangleConeT"]


def kind_of(v):
    if v is None:
        return "null"
    if isinstance(v, bool):
        return "bool"
    if isinstance(v, int):
        return "int"
    if isinstance(v, float):
        return "float"
    if isinstance(v, str):
        return "str"
    if isinstance(v, list):
        return "arr"
    return "obj"


def ast_mutants(root, only=None):
    """every structural mutant of a document, path by path: (description, mutated document)"""
    import copy
    retypes = [("null", None), ("bool", True), ("int", 1), ("float", 1.5), ("str", "x"), ("arr", []), ("obj", {})]
    out = []

    def paths(v, cur):
        yield cur
        if isinstance(v, list):
            for i, x in enumerate(v):
                yield from paths(x, cur + [i])
        elif isinstance(v, dict):
            for k, x in v.items():
                yield from paths(x, cur + [k])

    def get(v, p):
        for k in p:
            v = v[k]
        return v

    def put(p, val, what):
        d = copy.deepcopy(root)
        if not p:
            d = val
        else:
            get(d, p[:-1])[p[-1]] = val
        out.append(("%s %s" % (what, json.dumps(p)), d))

    for p in paths(root, []):
        if only is not None and not only(p):
            continue
        v = get(root, p)
        k = kind_of(v)
        for nm, val in retypes:
            if nm != k:
                put(p, copy.deepcopy(val), "retype->%s" % nm)
        if p:
            d = copy.deepcopy(root)
            parent = get(d, p[:-1])
            del parent[p[-1]]
            out.append(("remove %s" % json.dumps(p), d))
        if k in ("int", "float"):
            for val in (-1, 2 ** 53, 1e300, 0):
                if val != v:
                    put(p, val, "number->%r" % val)
            if k == "int":
                put(p, v + 1, "int+1")
                put(p, float(v), "int as float")
        if k == "arr":
            if v:
                put(p, v[:-1], "array truncated")
                put(p, v + [copy.deepcopy(v[-1])], "array extended")
            else:
                put(p, [0], "array extended")
        if k == "obj":
            for key in list(v.keys()):
                d = copy.deepcopy(root)
                o = get(d, p)
                renamed = {}
                for kk, vv in o.items():
                    renamed[kk + "_" if kk == key else kk] = vv
                if p:
                    get(d, p[:-1])[p[-1]] = renamed
                else:
                    d = renamed
                out.append(("rename key %s at %s" % (key, json.dumps(p)), d))
                if key in CONE_TAGS:
                    for t in CONE_TAGS + ["zeroconet", "Cone"]:
                        if t != key:
                            d = copy.deepcopy(root)
                            get(d, p[:-1])[p[-1]] = {t: v[key]}
                            out.append(("cone tag %s -> %s at %s" % (key, t, json.dumps(p)), d))
    return out


class Raw(str):
    """a literal JSON token"""


def dump(v):
    """serializer that can emit raw tokens and objects with duplicate keys (list of pairs tagged 'PAIRS')"""
    if isinstance(v, Raw):
        return str(v)
    if isinstance(v, tuple) and v[0] == "PAIRS":
        return "{" + ",".join(json.dumps(k) + ":" + dump(x) for k, x in v[1]) + "}"
    if isinstance(v, dict):
        return "{" + ",".join(json.dumps(k) + ":" + dump(x) for k, x in v.items()) + "}"
    if isinstance(v, list):
        return "[" + ",".join(dump(x) for x in v) + "]"
    return json.dumps(v)


def near_misses(name):
    out = [name, "", name.upper(), name.capitalize(), " " + name, name + " ", "\t" + name, name + "\n", name + "x", "_" + name]
    look = {"a": "\u0430", "o": "\u043e", "e": "\u0435", "c": "\u0441", "p": "\u0440", "q": "\uff51", "l": "\uff4c", "i": "\u0456"}
    for i, ch in enumerate(name):
        out.append(name[:i] + ch.swapcase() + name[i + 1:])
        out.append(name[:i])
        out.append(name[i + 1:])
        if ch in look:
            out.append(name[:i] + look[ch] + name[i + 1:])
    return out


ENUM_VALUES = {"direct_solve_method": ["auto", "qdldl", "faer", "foo"],
               "chordal_decomposition_merge_method": ["none", "parent_child", "clique_graph", "foo"]}


def settings_near_miss_cases(defaults_rec):
    """files whose settings are near misses of valid ones; loaded AND solved by the harness"""
    sett = settings_object(defaults_rec)
    sett["max_iter"] = 50
    sett["time_limit"] = 5.0
    name, base = "settings:nonneg", None
    for nm, d in model_bases(sett):
        if nm == "model:nonneg":
            base = dict(d)
    base["settings"] = sett
    cases, seen = [], set()

    def emit(what, settings_value):
        d = dict(base)
        d["settings"] = settings_value
        text = dump(d)
        if text not in seen:
            seen.add(text)
            cases.append({"kind": "fault", "base": name, "mut": what, "text": text})

    emit("unchanged", sett)
    for key, val in sett.items():
        def with_(v):
            o = dict(sett)
            o[key] = v
            return o
        if isinstance(val, str):
            for good in ENUM_VALUES.get(key, [val]):
                for cand in near_misses(good):
                    emit("string %s = %r" % (key, cand), with_(cand))
            for tok in ("null", "0", "true", '["auto"]'):
                emit("string %s = token %s" % (key, tok), with_(Raw(tok)))
        elif isinstance(val, bool):
            for tok in ("0", "1", '"true"', '"false"', "null"):
                emit("bool %s = token %s" % (key, tok), with_(Raw(tok)))
            emit("bool %s flipped" % key, with_(not val) if key not in ("direct_kkt_solver", "verbose") else with_(val))
            if key == "direct_kkt_solver":
                emit("bool direct_kkt_solver false", with_(False))
        elif isinstance(val, int):
            toks = ["-1", "-0", "1e400", "-0.0", "%d.0" % val, '"%d"' % val, "4294967296", "4294967295.0", "1e1", "null"]
            if key == "max_iter":
                toks.append("4294967295")
            for tok in toks:
                emit("uint %s = token %s" % (key, tok), with_(Raw(tok)))
        elif isinstance(val, float):
            for tok in ("1e400", "-1e400", "-0.0", "-0", '"%r"' % val, "null", "true", "[%r]" % val, "1e-400"):
                emit("float %s = token %s" % (key, tok), with_(Raw(tok)))
        # missing / duplicated / extra
        o = dict(sett)
        del o[key]
        emit("missing %s" % key, o)
        pairs = []
        for k2, v2 in sett.items():
            pairs.append((k2, v2))
            if k2 == key:
                pairs.append((k2, v2))
        emit("duplicated %s" % key, ("PAIRS", pairs))
        emit("extra key next to %s" % key, ("PAIRS", [(k2 + ("" if k2 != key else ""), v2) for k2, v2 in sett.items()] + [(key + "_", val), (key.upper(), val)]))
    return cases


def override_matrix_cases(defaults_rec):
    """{stored settings valid / invalid} x {override None / Some(valid) / Some(invalid)}; the harness loads
    each file with the given settings argument and solves accepted ones"""
    import struct
    sett = settings_object(defaults_rec)
    sett["max_iter"] = 51
    sett["time_limit"] = 5.0
    base = None
    for nm, d in model_bases(sett):
        if nm == "model:nonneg":
            base = dict(d)

    def fbits(x):
        return "%016x" % struct.unpack("<Q", struct.pack("<d", x))[0]
    stored = [("valid", {})]
    for key, bad in (("direct_solve_method", ["cholmod", "Auto", "", "mkl"]), ("chordal_decomposition_merge_method", ["foo", "Clique_graph", ""])):
        for v in bad:
            stored.append(("invalid %s=%r" % (key, v), {key: v}))
    stored.append(("invalid direct_kkt_solver=false", {"direct_kkt_solver": False}))
    stored.append(("valid alt direct_solve_method=faer", {"direct_solve_method": "faer"}))
    stored.append(("undecodable max_iter=-1", {"max_iter": Raw("-1")}))
    stored.append(("undecodable tol_feas=string", {"tol_feas": Raw('"1e-8"')}))
    stored.append(("undecodable equilibrate_max_iter=2^32", {"equilibrate_max_iter": Raw("4294967296")}))
    stored.append(("valid time_limit=MAX (infinity)", {"time_limit": 1.7976931348623157e308}))
    overrides = [("None", None), ("Some(valid default)", []), ("Some(valid max_iter=7)", [["max_iter", {"U": 7}]]),
                 ("Some(valid qdldl, tol_feas)", [["direct_solve_method", {"S": "qdldl"}], ["tol_feas", {"F": fbits(1e-7)}]]),
                 ("Some(valid time_limit=MAX)", [["time_limit", {"F": fbits(1.7976931348623157e308)}]])]
    for key, bad in (("direct_solve_method", ["cholmod", "QDLDL", "", "auto "]), ("chordal_decomposition_merge_method", ["foo", "None"])):
        for v in bad:
            overrides.append(("Some(invalid %s=%r)" % (key, v), [[key, {"S": v}]]))
    overrides.append(("Some(invalid direct_kkt_solver=false)", [["direct_kkt_solver", {"B": False}]]))
    cases = []
    for sname, dev in stored:
        o = dict(sett)
        o.update(dev)
        d = dict(base)
        d["settings"] = o
        text = dump(d)
        for oname, ospec in overrides:
            c = {"kind": "fault", "base": "override:nonneg", "mut": "stored %s x override %s" % (sname, oname), "text": text}
            if ospec is not None:
                c["over"] = ospec
            cases.append(c)
    return cases


def model_side_cases(defaults_rec, thorough):
    cases, seen = [], set()
    for name, base in model_bases(settings_object(defaults_rec)):
        text0 = json.dumps(base, separators=(",", ":"))
        seen.add(text0)
        cases.append({"kind": "fault", "base": name, "mut": "unchanged", "text": text0})
        # the per-variant documents share P, q, A with model:all (mutated there in full): only
        # the parts that depend on the cone variant are mutated in them
        only = None
        if name not in ("model:all", "model:settings"):
            only = lambda p: (p[:1] in (["cones"], ["b"])) or p == ["A", "m"] or p == []
        for what, d in ast_mutants(base, only):
            text = json.dumps(d, separators=(",", ":"))
            if text in seen:
                continue
            seen.add(text)
            cases.append({"kind": "fault", "base": name, "mut": what, "text": text})
    return cases


EXPLANATION = ("Coq theorems about a Gallina model of everything Clarabel adds on top of serde_json: decode(encode p) = Ok p for all "
               "problems with finite numbers, settings round trip incl. time_limit = inf, save undoes equilibration over any field, "
               "bit-exact save when scaling is the identity, override wins, load never panics (false of the code before the fix: "
               "load_panics_refuted). The model is tied to the Rust code by round trips and a fault stream whose files are parsed by "
               "Python's json into the model's AST and compared inside Coq (vm_compute).")


def run(chk, replay=None):
    pid = chk.pid
    broken = []
    ok, out = chk.build_coq(["theories/Props/C19.vo", "theories/Json/Check.vo"])
    if not ok:
        broken.append("Coq build failed: " + out[-1500:])
    else:
        broken.extend(chk.audit("C19.v"))
    hok, hout = chk.build_harness(bin="c19")
    stats = {k: 0 for k in ("rt", "rt_skipped", "rt_reduced", "fault", "fault_panic", "fault_syntax_invalid", "fault_predicted",
                            "fault_not_predicted", "fault_ok", "fault_err", "text_layer_disagreements", "known_cones_collapsed",
                            "known_b_capped", "known_time_limit_max", "save_bits_differ", "positional_form_disagreements", "verdict_inconclusive_flips", "sites", "solve_after_load_abnormal", "settings_near_miss", "override_matrix")}
    stats["rt_by_tag"] = {}
    recs = []
    hstats = {}
    if not hok:
        broken.append("harness does not build against the current repository tree: " + hout[-1500:])
    else:
        runs = []
        if replay:
            runs.append(("replay", ["--replay", os.path.abspath(replay)]))
        else:
            corpus = []
            for f in sorted(glob.glob(os.path.join(core.VERIF, "corpus", pid, "*.json"))):
                try:
                    v = json.load(open(f))
                    corpus.extend(v["cases"] if "cases" in v else [v])
                except Exception as e:
                    broken.append("unreadable corpus file %s: %s" % (f, e))
            if corpus:
                cf = os.path.join(chk.wdir, "corpus_replay.json")
                json.dump({"cases": corpus}, open(cf, "w"))
                runs.append(("corpus", ["--replay", cf]))
            runs.append(("generated", []))
        for name, extra in runs:
            rc, out2, rr = chk.run_harness(["--seed", str(chk.seed), "--tier", chk.tier] + extra, "cases_%s_%s.jsonl" % (pid, name), timeout=3000, bin="c19")
            if rc != 0:
                broken.append("harness run (%s) failed rc=%d: %s" % (name, rc, out2[-800:]))
            if name != "generated":
                rr = [r for r in rr if r.get("kind") != "defaults"]
            recs.extend(rr)
            for r in rr:
                if "stats" in r:
                    hstats = r["stats"]
        drec = [r for r in recs if r.get("kind") == "defaults"]
        if not replay and drec:
            # structural mutants generated on the AST side, field by field, for every cone variant
            mcases = model_side_cases(drec[0], chk.tier == "thorough")
            ncases = settings_near_miss_cases(drec[0])
            stats["settings_near_miss"] = len(ncases)
            ocases = override_matrix_cases(drec[0])
            mcases = mcases + ncases + ocases
            mf = os.path.join(chk.wdir, "model_side_mutants.json")
            json.dump({"cases": mcases}, open(mf, "w"))
            rc, out2, rr = chk.run_harness(["--seed", str(chk.seed), "--tier", chk.tier, "--replay", mf], "cases_%s_modelside.jsonl" % pid, timeout=3000, bin="c19")
            if rc != 0:
                broken.append("harness run (model-side mutants) failed rc=%d: %s" % (rc, out2[-800:]))
            rr = [r for r in rr if r.get("kind") == "fault"]
            stats["model_side_mutants"] = len(rr) - len(ncases) - len(ocases)
            stats["model_side_ok"] = len([r for r in rr if r["observed"] == "ok"])
            if len(rr) != len({(c["text"], json.dumps(c.get("over"))) for c in mcases}):
                broken.append("model-side mutants: %d generated, %d loaded" % (len(mcases), len(rr)))
            unchanged_bad = [r["base"] for r in rr if r["mut"] == "unchanged" and r["observed"] != "ok"]
            if unchanged_bad:
                broken.append("model-side base documents do not load: %s" % unchanged_bad)
            recs.extend(rr)
    cases = process(chk, recs, stats)
    if hok and not replay and stats.get("merge_consumer_reached") is not True:
        broken.append("the merge-method consumer (chordal decomposition with more than one clique) is not reached by the sites test problem")
    bad, errors = ([], [])
    if ok and cases:
        bad, errors = chk.coq_eval(header(), cases, timeout=1500, per_shard=400)
        for e in errors:
            broken.append("a cases shard failed to evaluate: " + e["output"][-600:])
        judge(chk, bad, stats)
    if stats["save_bits_differ"]:
        chk.notes.append("%d saved files agree with the user's data within the stated tolerance but not bit-for-bit with the float model of save_to_file (information only)" % stats["save_bits_differ"])
    if stats["verdict_inconclusive_flips"]:
        chk.notes.append("%d equilibrated round trips (data equal up to rounding, not bit-identical) ended with a different inconclusive / Almost-border status on the loaded problem (information only)" % stats["verdict_inconclusive_flips"])
    if stats["positional_form_disagreements"]:
        chk.notes.append("%d files giving a struct in positional (array) form are decoded differently by the model and the code (field declaration order; information only)" % stats["positional_form_disagreements"])
    if broken and not chk.violations:
        chk.violation({"property": pid, "kind": "proof-or-tie-broken", "broken": broken,
                       "searched": "all %d correspondence cases of this run" % len(cases)}, suffix="no-failing-input-found")
    nontriv = {core.input_hash(c) for c in cases if c["op"] != "defaults"}
    samples = [{"op": c["op"], "input": c["input"]} for c in cases[:: max(1, len(cases) // 5)]][:5]
    chk.assumptions = [
        "serde_json's text layer (tokeniser, float printing/parsing with float_roundtrip) and Python's json module agree on the token stream of a file",
        "usize overflow is not modelled (integer literals beyond 2^62 are only checked for no-panic)",
        "rounding error of the scale/unscale round trip is bounded by (6k+8)*2^-52 relative (derived by counting roundings, not proved)",
    ]
    extra = {"input_distribution": {"harness": hstats, "checked": stats},
             "correspondence_cases": len(cases), "correspondence_disagreements": len([x for x in bad if x[0]["op"] != "roundtrip" or any(d not in (0,) for d in digits(x[1]))]),
             "traces_validated_against_impl": len(cases)}
    rule = ("cases = round trips (generated problem: all cone variants, empty P/A, extreme finite values, equilibration on/off, every settings "
            "field perturbed; saved, loaded with stored and with override settings, both solved) + fault files (every single-byte deletion and "
            "truncation of small base files, byte substitutions, structured edits of every JSON path: type confusion, field removal, "
            "dimension-inconsistent integers, positional struct forms, duplicate keys); distinct = distinct (op,input) JSON; all are non-trivial")
    return chk.finish("proof", samples, len(cases), len(nontriv), rule, EXPLANATION, extra)
