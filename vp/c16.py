from . import core, standard

HEADER = """From Coq Require Import List ZArith NArith Floats. Import ListNotations.
Require Import Clarabel.Base.Ops Clarabel.Csc.Model Clarabel.Csc.Check."""


def nontrivial(case):
    inp = case.get("input", {})
    if case["op"] == "bundle":
        return len(inp["A"]["nzval"]) >= 1
    if case["op"] == "concat":
        return sum(len(b["nzval"]) for b in inp["blocks"]) >= 1
    if case["op"] == "fgemv":
        return len(inp["A"]["nzval"]) >= 1
    if case["op"] == "hvgrid":
        return sum(len(b["nzval"]) for r in inp["rows"] for b in r) >= 1
    if case["op"] == "triplets":
        return len(inp["V"]) >= 1
    if case["op"] == "raw":
        return len(inp["A"]["rowval"]) >= 1
    return True


def diagnose(chk, case):
    # evaluate each conjunct of the case separately to name the failing operation
    coq = case["coq"]
    import re
    m = re.match(r"^\(let A := (.*?) in maxl \[(.*)\]\)$", coq, re.S)
    if m:
        a, body = m.group(1), m.group(2)
        parts = [p.strip() for p in body.split("; c_")]
        parts = [parts[0]] + ["c_" + p for p in parts[1:]]
        vals = chk.coq_show(HEADER, ["let A := %s in %s" % (a, p) for p in parts])
        return [{"conjunct": p[:400], "code": v} for p, v in zip(parts, vals) if "= 0" not in v][:6]
    return None


SPEC = {
    "structure_code": 2,
    "props_file": "C16.v",
    "targets": ["theories/Props/C16.vo", "theories/Csc/Check.vo", "theories/Csc/Examples.vo"],
    "header": HEADER,
    "harness_prop": "c16",
    # a shard of ~5 500 thorough cases makes coqc use ~7 GB (1 000 cases: ~1.5 GB); 16 big ones do not fit in memory
    "per_shard": 1000,
    "nontrivial": nontrivial,
    "diagnose": diagnose,
    "rule": ("cases = (operation bundle, input) pairs. Exhaustive part: every matrix of shape 0x0, 0x2, 2x0, 1x1, 1x2, 2x1, "
             "1x3, 3x1, 2x2 over {absent,1,-1,2} and 2x3, 3x2 over {absent,1,-1}; 3x3 over {absent,1,-1}: every 5th code in "
             "quick (3 937 of 19 683), all in thorough (which adds 2x3/3x2 over four values and lattice samples of 4x3 and "
             "3x3 over four values); every ordered triplet sequence of length <= 3 (thorough: 4) over a 2x2 grid with values "
             "{1,-1,2}; ordered pairs of the 105 blocks of shape <= 2x2 over {absent,1,-1} (quick: every 8th pair, thorough: "
             "all); identity/zeros for n <= 5. Seeded random part: matrices up to 40x40 with stored zeros and empty "
             "rows/columns, large shapes (40-120 rows x 2-6 columns with runs of 33-100-entry columns, their transposes, squares of order 40-60: full "
             "bundle, raw encodings in presorted / reversed / shuffled / duplicated column order, concatenations of large blocks), 2x2 block layouts, R x C block grids with R,C <= 3 (one in four shape-inconsistent, plus the "
             "degenerate layouts), triplet lists, raw encodings (canonical, unsorted with duplicates, malformed colptr / "
             "lengths / row indices). Each single-matrix bundle runs every operation named in the property on that matrix "
             "(incl. symv, quad_form and col_norms_sym on its upper triangle, set_entry on absent and stored positions with "
             "zero and nonzero values, select_rows with all/no/some rows, all 16 (a,b) class pairs of gemv in rotation, triu / symmetric round trips, the "
             "missing-diagonal pipeline). Dimension-consistent raw encodings (unsorted, duplicated; all 2x2 and every 3rd 3x3 encoding with column "
             "sequences of length <= 2) also run is_triu, index_to_coord at every index and the diagonal counters. fgemv: binary64-level gemv / gemv_T / "
             "symv on 12 shapes x all coefficient class pairs incl. -0: exactly-summable few-bit dyadic inputs with finite / non-finite garbage in y "
             "(bitwise, order-independent by construction, binding) and general floats (binding to 2^-45 of the sum of absolute products against "
             "the exact dyadic dense meaning; bitwise identity with the transcribed order is information only). A case is non-trivial when its input stores at "
             "least one entry; distinct = distinct (op,input) JSON"),
    "level": "proof",
    "explanation": "Unbounded Coq theorems (Props/C16.v) state that each operation of the Gallina CSC model has the dense meaning and preserves canonical form, for every matrix over any commutative ring. The model is tied to the Rust code by running both on the same inputs (exact arithmetic: i64 / small-integer f64) and comparing canonical-form + dense equality inside Coq by vm_compute.",
    "assumptions": ["f64 arithmetic on small integers is exact (exactness domain)", "usize overflow is not modelled", "Coq primitive floats implement IEEE binary64 (fgemv stream)"],
}


def run(chk, replay=None):
    return standard.run_standard(chk, SPEC, replay)
