from . import core, standard

HEADER = """From Coq Require Import List ZArith NArith. Import ListNotations.
Require Import Clarabel.Base.Ops Clarabel.Csc.Model Clarabel.Csc.Check."""


def nontrivial(case):
    inp = case.get("input", {})
    if case["op"] == "bundle":
        return len(inp["A"]["nzval"]) >= 1
    if case["op"] == "concat":
        return sum(len(b["nzval"]) for b in inp["blocks"]) >= 1
    if case["op"] == "triplets":
        return len(inp["V"]) >= 1
    if case["op"] == "raw":
        return len(inp["A"]["rowval"]) >= 1
    return True


def diagnose(chk, case):
    # evaluate each conjunct of the case separately to name the failing operation
    coq = case["coq"]
    import re
    m = re.match(r"^\(let A := (.*?) in maxl \[(.*)\]\)$", coq, re.S)
    if m:
        a, body = m.group(1), m.group(2)
        parts = [p.strip() for p in body.split("; c_")]
        parts = [parts[0]] + ["c_" + p for p in parts[1:]]
        vals = chk.coq_show(HEADER, ["let A := %s in %s" % (a, p) for p in parts])
        return [{"conjunct": p[:400], "code": v} for p, v in zip(parts, vals) if "= 0" not in v][:6]
    return None


SPEC = {
    "props_file": "C16.v",
    "targets": ["theories/Props/C16.vo", "theories/Csc/Check.vo"],
    "header": HEADER,
    "harness_prop": "c16",
    "nontrivial": nontrivial,
    "diagnose": diagnose,
    "rule": "cases = (operation bundle, input matrix) pairs: exhaustive enumeration of all matrices of the listed small shapes over the listed value sets, all ordered triplet sequences up to the stated length, all pairs of <=2x2 blocks, plus seeded random larger shapes and malformed encodings; a case is non-trivial when its input stores at least one entry; distinct = distinct (op,input) JSON",
    "level": "proof",
    "explanation": "Unbounded Coq theorems (Props/C16.v) state that each operation of the Gallina CSC model has the dense meaning and preserves canonical form, for every matrix over any commutative ring. The model is tied to the Rust code by running both on the same inputs (exact arithmetic: i64 / small-integer f64) and comparing canonical-form + dense equality inside Coq by vm_compute.",
    "assumptions": ["f64 arithmetic on small integers is exact (exactness domain)", "usize overflow is not modelled"],
}


def run(chk, replay=None):
    return standard.run_standard(chk, SPEC, replay)
