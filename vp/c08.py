"""C08 — updating problem data in place is equivalent to rebuilding the solver."""
from . import core, standard

HEADER = """From Coq Require Import List ZArith NArith Bool. Import ListNotations.
Require Import Clarabel.Base.Ops Clarabel.Base.Dyadic Clarabel.Csc.Model Clarabel.Update.Model Clarabel.Update.Check Clarabel.Update.CheckF."""

FIELDS = {1: "Result kind differs from the model", 2: "data.P.nzval", 3: "data.q", 4: "data.A.nzval",
          5: "data.b", 6: "KKT values at map.P/map.A", 7: "normq cache", 8: "normb cache",
          9: "rejected whole-vector/matrix update changed some data (bitwise)",
          10: "empty update changed some data (bitwise)",
          11: "frame: pattern / equilibration / maps changed, or the LDL backend copy disagrees with KKT"}


def nontrivial(case):
    inp = case.get("input", {})
    if case["op"] == "history":
        return any(o != "solve" for o in inp.get("ops", []))
    return True


def diagnose(chk, case):
    if case["op"] == "transition":
        items = [q.strip() for q in case["coq"][6:-1].split(";\n")]
        vals = chk.coq_show(HEADER, items)
        bad = [{"conjunct_index": k, "conjunct": q[:160], "value": v} for k, (q, v) in enumerate(zip(items, vals)) if "= 0" not in v]
        return {"failing_conjuncts": bad[:8], "phases": case["input"].get("phases"),
                "legend": "c08_class_is / c08_final / c08_iters: re-used solver vs fresh solver on the same user data; c08_traj / c08_same / c08_start: re-used solver vs twin (same data and updates, never solved): whole trajectory bitwise, first iterate bitwise, tau = kappa = 1 at the start"}
    if case["op"] == "timelimit":
        items = [q.strip() for q in case["coq"][6:-1].split(";\n")]
        vals = chk.coq_show(HEADER, items)
        return {"conjuncts": [{"conjunct": q[:120], "value": v} for q, v in zip(items, vals)],
                "codes": {"1": "a solve of the re-used solver returned MaxTime although constructor call + this solve call took less than the time limit by the harness clock (a fresh solver cannot do that)",
                          "4": "both 1 and 3",
                          "3": "reported solution.solve_time exceeds the wall time of the constructor call plus this solve call by more than 50 us (a per-solve timer was not reset)"}}
    if case["op"] != "history":
        parts = case["coq"]
        if parts.startswith("maxl ["):
            items = [p.strip() for p in parts[6:-1].split(";\n")]
            vals = chk.coq_show(HEADER, items)
            return [{"conjunct": p[:300], "value": v} for p, v in zip(items, vals)]
        return None
    vals = chk.coq_show(HEADER, [case["coq"]])
    import re
    m = re.search(r"=\s*(\d+)", vals[0])
    if not m:
        return {"raw": vals[0][:400]}
    code = int(m.group(1))
    if code == 999:
        return {"code": code, "meaning": "the initial state printed from the live solver is not well-formed / KKT copy not in sync with data after construction"}
    if code >= 1000:
        step, field = (code - 1000) // 16, (code - 1000) % 16
        ops = case["input"].get("ops", [])
        return {"code": code, "step": step, "op": ops[step] if step < len(ops) else None,
                "field": FIELDS.get(field, str(field))}
    return {"code": code}


def known_key(case):
    return None


def post(chk, recs, cases):
    # findings reported by the harness as direct observations on the implementation; each one is
    # backed by the Coq side: the model reproduces the behaviour (the history case of the same
    # seed agrees with the model) and Props/C08.v proves the corresponding `_refuted` / witness lemma.
    seen = set()
    for r in recs:
        if r.get("finding") == "update_data-not-atomic":
            key = "update_data-not-atomic"
            if key in seen:
                continue
            seen.add(key)
            chk.known_or_violation(key, {"property": "C08", "kind": "direct-observation", "finding": r,
                                         "what": "update_data with whole-vector / matrix arguments returned Err after some components had already been applied",
                                         "replay_cmd": "./check C08 --replay <this file>",
                                         "input": {"case_seed": r.get("case_seed")}}, key)
    for r in recs:
        if "direct_record" in r:
            chk.notes.append("direct record: %s" % r)
    obs = [r for r in recs if "observation" in r]
    for o in obs:
        chk.notes.append("observation: %s" % o)
    st = [r for r in recs if "stats" in r]
    if st:
        s = st[0]["stats"]
        if chk.tier and not any(k.startswith("op/") and k.endswith("/1") for k in s):
            chk.notes.append("no presolve-rejected update was generated in this run")
        chk.notes.append("F11 (exempt form): %d rejected partial updates left a prefix applied; model and code agree on the resulting state" % s.get("F11-rejected-partial-left-prefix", 0))
        chk.notes.append("final comparison: %d well-posed instances (class must agree), %d others; %d class mismatches on ill-posed instances (information: the solver's own verdict on degenerate LPs depends on the equilibration), %d inconclusive (limits / numerical errors), %d skipped after a rejected partial update" % (
            s.get("final-wellposed", 0), s.get("final-not-wellposed", 0), s.get("final-class-mismatch-on-illposed-instance(info)", 0),
            s.get("final-inconclusive", 0), s.get("final-skipped-after-rejected-partial(F11)", 0)))
        if s.get("backend-sync-FAILED", 0):
            chk.notes.append("LDL backend copy disagreed with KKT values in %d steps" % s["backend-sync-FAILED"])


SPEC = {
    "props_file": "C08.v",
    "targets": ["theories/Props/C08.vo", "theories/Update/Check.vo", "theories/Update/CheckF.vo"],
    "header": HEADER,
    "harness_bin": "c08",
    "harness_prop": "c08",
    "nontrivial": nontrivial,
    "diagnose": diagnose,
    "post": post,
    "rule": "cases = (problem, history) pairs: seeded random small conic problems (n<=5, m<=8; zero / nonnegative / second-order / exponential / 2x2 PSD cones; LP and QP) with histories of 1..12 operations over update_P/q/A/b/update_data in every argument form (vector, matrix, index-value pairs as tuple and as zip, empty vector, zero-length array), valid and invalid (wrong length, wrong dimensions, pattern mismatch, out-of-range index, presolve / chordal decomposition active), interleaved with solves, equilibration on and off, qdldl / auto / faer backends; plus one final-comparison case per history; non-trivial = the history contains at least one update; distinct = distinct (op,input) JSON",
    "level": "proof",
    "what": "the live solver's result kind / data / KKT values / norm caches after an operation disagree with the proved model of data updating",
    "explanation": "Coq theorems (Props/C08.v) about the Gallina transcription of data_updating.rs: the invariant 'internal data = (d,e,c)-scaling of the user data, KKT copy in sync, caches empty or true' is preserved by every accepted operation and along every history; accepted operations refine the same operation on the user's data; rejected whole-form updates and blocked updates leave the state untouched; empty updates are no-ops. The model is tied to the Rust code by replaying generated histories in the model on exact dyadic numbers and comparing result kinds, data, KKT values and caches after every operation inside Coq; the final comparison solves the updated and a freshly built solver.",
    "assumptions": ["IEEE rounding of the (at most three) multiplications per updated entry is not modelled: values are compared with the exact product within 2^-48 relative, exactly when equilibration is off",
                    "usize overflow is not modelled",
                    "the numerical outcome of a solve is not modelled; the updated-vs-fresh comparison of solves is an observation on generated instances"],
}


def run(chk, replay=None):
    import os
    if replay:
        replay = os.path.abspath(replay)   # the harness runs with cwd = work/C08
    # a history case is a large term (~3 kB): keep the generated .v files small so that 16
    # concurrent coqc processes stay well below 300 MB each
    orig = chk.coq_eval
    chk.coq_eval = lambda header, cases, **kw: orig(header, cases, per_shard=120, **kw)
    return standard.run_standard(chk, SPEC, replay)
