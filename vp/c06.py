"""C06: Newton-equation correspondence (evaluated in Coq) + measured convergence statistics
on the planted family G.  The statistical part is NOT a theorem: it is the failing-input
search of this property and is reported in the evidence as exploration."""
import math
from . import standard

HEADER = """From Coq Require Import List ZArith NArith Floats. Import ListNotations.
Require Import Clarabel.Base.Dyadic Clarabel.Newton.Check.
Open Scope float_scope."""

# envelope for the 95th percentile of iteration counts over family G: measured on the
# unchanged tree (p95 = 17..18 over seeds 1..3) + 25 %
P95_ENVELOPE = 23
MEDIAN_ENVELOPE = 13
RATE = 0.995           # the property's threshold
SIGNIFICANCE = 1e-6    # a violation is reported only if the shortfall cannot be sampling noise


def binom_tail(n, p, k):
    """P[Bin(n,p) >= k]"""
    q = 1.0 - p
    tot = 0.0
    for i in range(k, n + 1):
        tot += math.exp(math.lgamma(n + 1) - math.lgamma(i + 1) - math.lgamma(n - i + 1) + i * math.log(p) + (n - i) * math.log(q))
        if i > k + 200:
            break
    return tot


def critical_failures(n):
    k = int(n * (1 - RATE))
    while binom_tail(n, 1 - RATE, k) > SIGNIFICANCE:
        k += 1
    return k


def nontrivial(case):
    return case.get("input", {}).get("m", 0) >= 1


def post(chk, recs, cases):
    post_strata(chk, recs)
    g = [r["g"] for r in recs if "g" in r]
    if not g:
        return
    its = sorted(x["iterations"] for x in g if x["status"] == 1)
    fails = [x for x in g if x["status"] != 1]
    n = len(g)
    kcrit = critical_failures(n)
    p95 = its[int(len(its) * 0.95)] if its else 10 ** 9
    med = its[len(its) // 2] if its else 10 ** 9
    by_status = {}
    for x in g:
        by_status[str(x["status"])] = by_status.get(str(x["status"]), 0) + 1
    chk.cov["exploration_family_G"] = {
        "instances": n, "solved": n - len(fails), "solved_rate": round((n - len(fails)) / n, 5),
        "by_status": by_status, "iterations_median": med, "iterations_p95": p95,
        "iterations_max": its[-1] if its else None,
        "decision_rule": "violation iff non-Solved count >= %d (one-sided binomial test of rate < %.3f at significance %g) or p95 > %d or median > %d" % (kcrit, RATE, SIGNIFICANCE, P95_ENVELOPE, MEDIAN_ENVELOPE),
        "not_solved_examples": [{k: x[k] for k in ("k", "status", "iterations", "n", "m", "cones")} for x in fails[:8]],
        "note": "measured, not proved: the property's percentage is a statistical statement about a floating-point iteration",
    }
    bad = len(fails) >= kcrit or p95 > P95_ENVELOPE or med > MEDIAN_ENVELOPE
    if bad and n >= 100:
        chk.violation({"property": "C06", "kind": "family-G statistics",
                       "what": "solved-rate / iteration envelope of the planted family G is outside the stated bounds",
                       "stats": chk.cov["exploration_family_G"],
                       "input": {"instances": [{"problem": x["problem"], "status": x["status"], "iterations": x["iterations"]} for x in fails[:20] if x.get("problem")]},
                       "replay_cmd": "./check C06 --replay <this file>"})


def critical_failures_at(n, sig):
    k = int(n * (1 - RATE))
    while binom_tail(n, 1 - RATE, k) > sig:
        k += 1
    return max(k, 1)


# p95 iteration envelopes per stratum: measured on the unchanged tree over seeds 1..3
# (exp 12-13, genpow 19-20, lp_qp 10, pow 13, psd 11-12, soc 11-12, soc_small 9-10) + 30 %
STRATUM_P95 = {"soc_axis": 11, "soc_axis_resolve": 11, "exp": 17, "genpow": 26, "lp_qp": 14, "pow": 17, "psd": 16, "soc": 16, "soc_small": 13}


def post_strata(chk, recs):
    """'across all supported cone types': the same one-sided binomial test per stratum of
    pure single-kind problems (Bonferroni over the strata)."""
    gs = [r["gs"] for r in recs if "gs" in r]
    if not gs:
        return
    names = sorted(set(x["stratum"] for x in gs))
    out = {}
    for nm in names:
        xs = [x for x in gs if x["stratum"] == nm]
        fails = [x for x in xs if x["status"] != 1]
        its = sorted(x["iterations"] for x in xs if x["status"] == 1)
        kcrit = critical_failures_at(len(xs), SIGNIFICANCE / max(len(names), 1))
        out[nm] = {"instances": len(xs), "solved": len(xs) - len(fails), "critical_failures": kcrit,
                   "iterations_p95": its[int(len(its) * 0.95)] if its else None,
                   "by_status": {str(k): sum(1 for x in xs if x["status"] == k) for k in sorted(set(x["status"] for x in xs))}}
        out[nm]["p95_envelope"] = STRATUM_P95.get(nm)
        p95 = out[nm]["iterations_p95"]
        if len(xs) >= 100 and p95 is not None and nm in STRATUM_P95 and p95 > STRATUM_P95[nm]:
            chk.known_or_violation("stratum-p95:" + nm, {"property": "C06", "kind": "family-G stratum iteration envelope", "stratum": nm,
                           "what": "95th percentile of iteration counts of pure %s problems is %d > envelope %d" % (nm, p95, STRATUM_P95[nm]),
                           "stats": out[nm], "replay_cmd": "./check C06"},
                           "pure %s problems of family G: p95 iterations %d" % (nm, p95))
        if len(xs) >= 100 and len(fails) >= kcrit:
            chk.known_or_violation("stratum:" + nm, {"property": "C06", "kind": "family-G stratum statistics", "stratum": nm,
                           "what": "pure %s problems of the planted family are not solved at the stated rate" % nm,
                           "stats": out[nm],
                           "input": {"instances": [{"problem": x["problem"], "status": x["status"], "iterations": x["iterations"]} for x in fails[:20] if x.get("problem")]},
                           "replay_cmd": "./check C06 --replay <this file>"},
                           "pure %s problems of family G: %d of %d not solved" % (nm, len(fails), len(xs)))
    chk.cov["exploration_family_G_strata"] = out


SPEC = {
    "props_file": "C06.v",
    "targets": ["theories/Props/C06.vo", "theories/Newton/Check.vo"],
    "header": HEADER,
    "harness_bin": "c06",
    "tag": "C06",
    "nontrivial": nontrivial,
    "post": post,
    "rule": "cases = search directions recorded at the exit of DefaultKKTSystem::solve (first ten of each of ~70 traced solves over all cone kinds, affine and combined), each re-evaluated exactly (dyadic arithmetic in Coq) against the x-, z-, kappa- and tau-equations of theorem C06_newton_equations with relative tolerance 2^-10 of the terms involved (plus an absolute floor 2^-30 max(1,|q|,|b|) for quantities at rounding level; measured worst case on the unchanged tree: 6e-7); plus the starting point recorded at the exit of solve_initial_point of every traced symmetric-cone solve, checked against the primal rows and the dual equality of theorems C06_init_point_qp / _lp (c_init); plus one case per iteration (first six of every traced solve) re-evaluating exactly the residual definitions of residuals.rs, the affine and combined right-hand sides of variables.rs (x, z, tau, kappa components), mu and the add_step update on the recorded iterates (c_step, relative 2^-30 / 2^-45), the hypotheses of theorem C06_residual_reduction; plus the exploration of family G (2000 planted strictly feasible instances, sizes 1..60, all cone mixtures, magnitudes <= 1e3, default settings) whose solved-rate and iteration quantiles are recorded. Non-trivial = direction of a problem with at least one constraint row; distinct = distinct (problem, direction index).",
    "level": "other",
    "structure_code": None,
    "explanation": "Partial by nature: the statement (>= 99.5 % of family G ends Solved, p95 of iterations under an envelope) is statistical. Proved in Coq (all dimensions, reals): the direction assembled by DefaultKKTSystem::solve from two exact quasi-definite solves satisfies the five linearised equations of the homogeneous embedding (C06_newton_equations) and the centering parameter lies in [0,1]. Tied to the code by exact re-evaluation of the four H-free equations on recorded directions. The convergence statistics are measured on family G on every run and a shortfall beyond sampling noise is reported as a violation with the failing instances as replay.",
    "assumptions": ["the KKT solves are treated as exact in the theorem; the run tolerates 2^-10 relative residual (static regularisation + iterative refinement)",
                    "family G is this framework's generator (harness/src/bin/c06.rs), conditioned so that n <= m or P is strictly convex"],
}


def run(chk, replay=None):
    return standard.run_standard(chk, SPEC, replay)
