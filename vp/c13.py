"""C13 - symmetric-cone scaling operators satisfy the Nesterov-Todd identities (NN, SOC; PSD partial)."""
from . import core, standard

HEADER = """From Coq Require Import List ZArith NArith Floats Bool. Import ListNotations.
Require Import Clarabel.Base.Ops Clarabel.Base.Dyadic.
Require Import Clarabel.Cones.Vec Clarabel.Cones.NN Clarabel.Cones.SOC Clarabel.Cones.Step Clarabel.Cones.Check."""


def nontrivial(case):
    inp = case.get("input", {})
    return any(v != 0 for v in inp.get("x", [])) and len(inp.get("s", [])) >= 1


def diagnose(chk, case):
    import re
    m = re.match(r"^\(maxl \[(.*)\]\)$", case["coq"], re.S)
    if not m:
        return None
    parts = [p.strip() for p in m.group(1).split("; ") if re.match(r"^(c_|p_|ofb)", p.strip())]
    # split only at top-level checker boundaries
    parts = re.split(r";\s+(?=(?:c_|p_|ofb)\w*)", m.group(1))
    vals = chk.coq_show(HEADER, parts)
    return [{"conjunct": p[:300], "code": v} for p, v in zip(parts, vals) if "= 0" not in v][:6]


SPEC = {
    # code 2 = within the stated float tolerance but not bit-identical (or, for _shift_to_cone_interior, a
    # different but valid shift amount): information only, as documented in design.d
    "structure_code": 2,
    "props_file": "C13.v",
    "targets": ["theories/Props/C13.vo", "theories/Cones/Check.vo"],
    "header": HEADER,
    "harness_bin": "c13",
    "harness_prop": "c13",
    "nontrivial": nontrivial,
    "diagnose": diagnose,
    "what": "scaling state / operator output of the implementation disagrees with the proved model (beyond the float tolerance) or fails the exact dyadic re-check of the Nesterov-Todd identities",
    "rule": "cases = (cone, s, z, x, y, alpha, beta, sigma*mu): NN dims 1-12 x {magnitudes 1e-8..1e8, small integers, central path}; SOC dims 2-12 (dense <= 4 < sparse expansion) x boundary distance {1,1e-4,1e-8} x magnitude pairs {(1,1),(1e8,1e-8),(1e-8,1e8),(1e4,1e4)} plus integer data, s = z, and boundary/outside points that update_scaling must refuse; every case drives update_scaling, mul_W, mul_Winv (N and T), get_Hs, mul_Hs, affine_ds, Ds_from_Dz_offset, combined_ds_shift, circ_op, inv_circ_op. Non-trivial = x not the zero vector; distinct = distinct (op,input) JSON",
    "level": "proof",
    "explanation": "Coq theorems over the reals (Props/C13.v), every dimension: NN: W z = lambda = W^-1 s, W'W z = s, mul_W/mul_Winv mutually inverse, get_Hs is the operator of mul_Hs, circ/inv_circ inverse, affine_ds = lambda o lambda, Ds offset and combined shift formulas. SOC, for normalised w and eta != 0: mul_W/mul_Winv mutually inverse and symmetric, mul_Hs = eta^2(2ww'-J) = W W, the sparse (D,u,v) KKT expansion eliminates to -mul_Hs; update_scaling always yields a normalised w and eta > 0. PARTIAL: the SOC identities W z = lambda = W^-1 s for the computed lambda, the packing index of the dense triangle, inv_circ, and the whole PSD cone are not proved; they are validated on every run by exact dyadic evaluation of the implementation's outputs.",
    "assumptions": ["IEEE rounding is not analysed; float model compared with tolerance 2^-40/dist (bit-identical reported separately); identity residuals re-checked exactly with tolerance 1e-10/dist relative to the magnitudes of the terms",
                    "PSD cone: not modelled (LAPACK chol/svd/eig are external); declared partial",
                    "NaN / infinite inputs are outside the model"],
}


def run(chk, replay=None):
    import os
    if replay:
        replay = os.path.abspath(replay)  # the harness runs with cwd = work/<ID>
    return standard.run_standard(chk, SPEC, replay)
