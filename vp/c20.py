from . import standard, skel_common


def nontrivial(case):
    inp = case.get("input", {})
    return len(inp.get("column", [])) >= 2 or len(inp.get("route_history", [])) >= 4


def direct_known_key(d):
    # F7: after an InsufficientProgress roll-back the last printed line describes the
    # discarded iterate; only that exact situation is a listed finding
    det = (d.get("input") or {}).get("detail") or {}
    # (final status InsufficientProgress, or the Almost* status post-processing turns it into)
    if d.get("key") == "last-line-after-rollback" and det.get("rolled_back") and det.get("status") in (10, 4, 5, 6):
        return "last-line-after-rollback"
    return None


SPEC = skel_common.spec(
    "C20", "C20.v",
    "cases = every traced solve run with verbose on into the buffer target: the iteration column parsed from the printed table must equal the status-line events predicted by the Coq loop model from the recorded kernel answers, the footer status must equal the model's final status and the returned one (c_column); direct records: last status line vs returned solution (printed precision), configuration header vs dimensions recomputed from the user's input (n, m after presolve, nnz of triu(P), nnz(A) after row removal, cone count, presolve count), bytes to stream and file identical to the buffer's (solve-time line masked), verbose off writes nothing to buffer / stream / file; routing histories (250 random sequences of print_to_{stdout,file,stream,sink,buffer}, raw writes through the print target's Write implementation, get_print_buffer and info clones on a live solver; 3 files opened in append mode and 3 shared streams) whose operation outputs, final target kind and final file / stream contents must equal those of the Coq state machine Solver/Route.v (c_route). Non-trivial = table with at least two lines.",
    "Theorem C20_iteration_column (loop model, all kernel answers): the numbers shown by the status lines start at 0, never decrease, never jump by more than one and end at the reported iteration count (the extra line after a failed step included); C20_post_spec: post-processing only turns error / limit statuses into Almost* ones. Routing (model of src/io/mod.rs): C20_route_refines - for every history each sink holds exactly the writes issued while it was the current target, in order; C20_same_bytes_all_targets - the same writes deliver identical bytes to a buffer, a stream and a file; C20_write_frame, C20_sink_silent, C20_cloned_stream_silent, C20_get_buffer_spec.",
    nontrivial,
    {"direct_known_key": direct_known_key})


def run(chk, replay=None):
    return standard.run_standard(chk, SPEC, replay)
