import glob
import json
import os
from . import core, standard

HEADER = """From Coq Require Import List ZArith NArith. Import ListNotations.
Require Import Clarabel.Chordal.TreeSpec Clarabel.Chordal.Check."""


def nontrivial(case):
    inp = case.get("input", {})
    if case["op"] == "tree":
        return len(inp.get("edges", [])) >= 1
    if case["op"] in ("idx2coord", "merge_models", "reorder"):
        return True
    if case["op"] == "dsu":
        return len(inp.get("ops", [])) >= 1
    return True


def diagnose(chk, case):
    """evaluate the conjuncts of check_tree separately on each strategy's outcome"""
    import re
    coq = case.get("coq", "")
    if case.get("op") in ("merge_models", "reorder", "idx2coord", "cg_post"):
        mm = re.match(r"^\(maxl \[(.*)\]\)?(%nat\))?$", coq, re.S)
        body = coq[len("(maxl ["):coq.rindex("]")]
        parts = re.split(r"; (?=c17_)", body)
        vals = chk.coq_show(HEADER, ["(%s)%%nat" % x if case.get("op") != "idx2coord" else x for x in parts])
        names = {"41": "parent-child merge decisions / final state differ from MergePC", "42": "clique-graph merge decisions / final cliques differ from MergeCG",
                 "43": "no-merge premises (wf_b, filled_b, ps_ok) or separators fail on the implementation's output", "44": "factor pattern differs from SymbolicFill.factor_pattern",
                 "45": "supernodes / supernode parents differ from PothenSun", "46": "edges taken by kruskal differ from Kruskal model", "47": "parents / split differ from SplitCliques model"}
        out = []
        for x, v in zip(parts, vals):
            if "= 0" not in v:
                code = re.search(r"= (\d+)", v)
                out.append({"tie": x.split()[0], "code": v, "meaning": names.get(code.group(1) if code else "", "")})
        return out[:6]
    m = re.match(r"^\(let p := (.*?) in maxl \[(.*)\]\)$", coq, re.S)
    if not m:
        return None
    p, body = m.group(1), m.group(2)
    parts = [x.strip() for x in body.split("; c17_case_po p ")]
    parts = [parts[0]] + ["c17_case_po p " + x for x in parts[1:]]
    out = []
    merges = case.get("input", {}).get("merges", [])
    vals = chk.coq_show(HEADER, ["let p := %s in %s" % (p, x) for x in parts])
    for k, (x, v) in enumerate(zip(parts, vals)):
        if "= 0" in v:
            continue
        d = {"merge": merges[k] if k < len(merges) else k, "code": v}
        mt = re.search(r"\(Decomposed (\(mkTree .*\))\)\s*$", x, re.S)
        if mt:
            t = mt.group(1)
            names = ["chk_perm (pn p) (ordering t)", "N.eqb (ncl t) (N.of_nat (length (post t)))", "chk_index t", "nodupb (post t)",
                     "nlist_eqb (concat (map (sn t) (post t))) (vertices (pn p))", "forallb (fun c => nodupb (clique t c)) (post t)",
                     "chk_cover p t", "chk_chain t (post t)", "nlist_eqb (nblk t) (map (fun c => N.of_nat (length (clique t c))) (post t))"]
            cv = chk.coq_show(HEADER, ["let p := %s in let t := %s in %s" % (p, t, n) for n in names])
            d["failed_conjuncts"] = [n for n, v2 in zip(names, cv) if "= true" not in v2]
        else:
            d["outcome"] = x[-60:]
        out.append(d)
    return out


def post(chk, recs, cases):
    for r in recs:
        if "stats" in r:
            st = r["stats"]
            chk.notes.append("outcomes per strategy: " + ", ".join("%s=%s" % (k, v) for k, v in sorted(st.items()) if ":" in k and not k.startswith("family")))
            chk.notes.append("largest tree: %s cliques; largest pattern: %s vertices" % (st.get("max_cliques"), st.get("max_vertices")))
            chk.notes.append("generated stream: traverse fallback scans %s (clique 0 merged: %s); merge-model ties %s, reorder ties %s, index_to_coord ties %s" % (st.get("traverse_fallback_scans"), st.get("traverse_fallback_scans_clique0_merged"), st.get("merge_model_cases"), st.get("reorder_model_cases"), st.get("idx2coord")))



def build_extracted(chk):
    """check_tree extracted to OCaml (ExtrOcamlBasic only) + the integer-parsing driver; rebuilt
    only when the Coq objects or the driver are newer than the executable"""
    import shutil
    xd = os.path.join(chk.wdir, "extract")
    os.makedirs(xd, exist_ok=True)
    exe = os.path.join(xd, "c17chk")
    srcs = [os.path.join(core.VERIF, "extract", "c17_extract.v"), os.path.join(core.VERIF, "extract", "c17_driver.ml"),
            os.path.join(core.COQ, "theories", "Chordal", "TreeSpec.vo"), os.path.join(core.COQ, "theories", "Chordal", "Check.vo")]
    if os.path.exists(exe) and all(os.path.exists(f) and os.path.getmtime(f) <= os.path.getmtime(exe) for f in srcs):
        return exe, None
    for f in ("c17_extract.v", "c17_driver.ml"):
        shutil.copy(os.path.join(core.VERIF, "extract", f), os.path.join(xd, f))
    rc, out, dt = core.sh(["coqc", "-noglob", "-Q", os.path.join(core.COQ, "theories"), "Clarabel", "c17_extract.v"], timeout=600, cwd=xd)
    if rc == 0:
        rc, out, dt = core.sh("ocamlfind ocamlopt -O3 -w -a c17chk.mli c17chk.ml c17_driver.ml -o c17chk", timeout=600, cwd=xd)
    if rc != 0:
        return None, "extraction / OCaml build of the checker failed: " + out[-600:]
    return exe, None


def exhaustive_extracted(chk, n, nsh):
    """ALL labelled graphs on n vertices x 3 strategies through the extracted checker; returns
    (problems, rejected outcomes).  Rejections are replayed through the Coq-evaluated path by the caller."""
    import subprocess
    import concurrent.futures
    chkexe, err = build_extracted(chk)
    if err:
        return [err], []
    xd = os.path.dirname(chkexe)
    exe = os.path.join(core.BUILD, "target", "debug", "c17")
    total = 3 * 2 ** (n * (n - 1) // 2)

    def one(i):
        cmd = "%s --exn %d %d %d --out /dev/stdout | %s" % (exe, n, i, nsh, chkexe)
        p = subprocess.run(cmd, shell=True, cwd=xd, stdout=subprocess.PIPE, stderr=subprocess.DEVNULL, text=True, timeout=3000)
        return p.stdout
    done, fails = 0, []
    per = total // nsh

    def parse(outp):
        d, fl = 0, []
        for ln in outp.splitlines():
            t = ln.split()
            if t and t[0] == "DONE":
                d += int(t[1])
            elif t and t[0] == "FAIL":
                fl.append({"n": int(t[1]), "bits": int(t[2]), "strategy": int(t[3]), "code": int(t[4])})
        return d, fl
    with concurrent.futures.ThreadPoolExecutor(max_workers=core.NCPU) as ex:
        results = list(ex.map(one, range(nsh)))
    for i, outp in enumerate(results):
        d, fl = parse(outp)
        if d != per:
            # a shard was cut short (e.g. the OS refused a thread under load): run it again, alone
            chk.notes.append("exhaustive n=%d: shard %d returned %d of %d outcomes, re-run" % (n, i, d, per))
            d, fl = parse(one(i))
        done += d
        fails.extend(fl)
    problems = []
    if done != total:
        problems.append("exhaustive %d-vertex run incomplete: %d of %d outcomes checked" % (n, done, total))
    chk.notes.append("exhaustive n=%d: %d outcomes (all labelled graphs x 3 strategies) checked by the extracted check_tree, %d rejected" % (n, done, len(fails)))
    chk.log("exhaustive n=%d: %d outcomes, %d rejected" % (n, done, len(fails)))
    return problems, fails


def run_exhaustive(chk, n, nsh):
    problems, fails = exhaustive_extracted(chk, n, nsh)
    seen = set()
    casesn = []
    for f in fails:
        if f["bits"] not in seen and len(seen) < 40:
            seen.add(f["bits"])
            casesn.append({"n": f["n"], "bits": f["bits"]})
    if casesn:
        cf = os.path.join(chk.wdir, "ex%d_fail_C17.json" % n)
        json.dump({"cases": casesn}, open(cf, "w"))
        rc, out, recs = chk.run_harness(["--seed", str(chk.seed), "--tier", chk.tier, "--replay", cf], "ex%d_cases_C17.jsonl" % n, timeout=900, bin="c17")
        cases = [r for r in recs if "coq" in r]
        bad, errors = chk.coq_eval(HEADER, cases, tag="ex%d" % n)
        for case, code in bad:
            if code != 2:
                chk.violation({"property": "C17", "kind": "exhaustive-%d" % n, "input": case.get("input"), "code": code, "coq": case.get("coq"), "diagnosis": diagnose(chk, case)})
        if not [b for b in bad if b[1] != 2]:
            problems.append("extracted checker rejected %d outcomes that the Coq-evaluated checker accepts (extraction tie broken)" % len(fails))
    for pr in problems:
        chk.violation({"property": "C17", "kind": "proof-or-tie-broken", "broken": [pr]}, suffix="no-failing-input-found")
    total = 3 * 2 ** (n * (n - 1) // 2)
    SPEC.setdefault("extra", {})["exhaustive_%d_vertices" % n] = {"outcomes_checked": total if not problems else "incomplete", "rejected": len(fails), "engine": "check_tree extracted to OCaml (ExtrOcamlBasic)"}


SPEC = {
    "props_file": "C17.v",
    "targets": ["theories/Props/C17.vo", "theories/Chordal/Check.vo"],
    "header": HEADER,
    "harness_bin": "c17",
    "harness_prop": "c17",
    "nontrivial": nontrivial,
    "diagnose": diagnose,
    "post": post,
    "what": "a tree produced by the implementation's chordal analysis is rejected by the proved checker check_tree (or the analysis crashed / hung / left a non-dense multi-clique pattern undecomposed)",
    "rule": "cases = (sparsity pattern, the three merge strategies) : every labelled graph on 1..5 vertices evaluated inside Coq; all 2^15 labelled graphs on 6 vertices (quick and thorough) and all 2^21 on 7 vertices (thorough) through the same checker extracted to OCaml, rejections replayed inside Coq, random banded / arrow / block-diagonal / disconnected / clique-tree chordal (deep, star) / Erdos-Renyi / cycle / grid patterns up to 300 vertices, presentation variants (diagonal absent, entries in b), plus union-find operation sequences; non-trivial = at least one off-diagonal entry (resp. one union); distinct = distinct input JSON",
    # code 2 is reserved for the two ties whose result is genuinely unspecified by the property: ANY
    # valid post-order and ANY numbering inside a supernode are acceptable (c17_postorder, c17_reorder)
    "structure_code": 2,
    "level": "translation_validation",
    "explanation": "Every clique tree the implementation returns (through ChordalInfo::new, the solver's own path) is checked inside Coq by check_tree, proved sound w.r.t. ValidTree (ordering permutation, consecutive supernode partition, coverage of every structural nonzero, parent later in post-order, separator = clique /\\ parent clique, running intersection, nblk). Undecomposed patterns must be dense or single-clique. The union-find, post_order and triangular index maps are proved correct as components; the merge strategies themselves are validated, not proved.",
    "assumptions": ["the universal claim for the merge strategies is established only on the explored patterns (exhaustive bound stated in the rule)",
                    "usize overflow not modelled; isqrt modelled as exact integer square root (valid below 2^52)"],
    "harness_timeout": 3000,
    "coq_timeout": 2400,
}


def run(chk, replay=None):
    # balance the coqc shards: cases are dealt round-robin, so deal them in order of decreasing size
    # (emission order correlates family and cost, which used to leave one shard 5x slower)
    orig_eval = chk.coq_eval

    def balanced_eval(header, cases, **kw):
        return orig_eval(header, sorted(cases, key=lambda c: -len(c.get("coq", ""))), **kw)
    chk.coq_eval = balanced_eval
    if replay is None:
        # regression corpus first (replayed through the same pipeline, results merged by a separate run)
        corpus = sorted(glob.glob(os.path.join(core.VERIF, "corpus", "C17", "*.json")))
        if corpus:
            allc = []
            for f in corpus:
                v = json.load(open(f))
                allc.extend(v["cases"] if isinstance(v, dict) and "cases" in v else [v])
            cf = os.path.join(chk.wdir, "corpus_C17.json")
            json.dump({"cases": allc}, open(cf, "w"))
            hok, hout = chk.build_harness(bin="c17")
            if hok:
                rc, out, recs = chk.run_harness(["--seed", str(chk.seed), "--tier", chk.tier, "--replay", cf], "corpus_cases_C17.jsonl", timeout=900, bin="c17")
                cases = [r for r in recs if "coq" in r]
                bad, errors = chk.coq_eval(HEADER, cases, tag="corpus")
                for case, code in bad:
                    if code != 2:
                        chk.violation({"property": "C17", "kind": "corpus-regression", "input": case.get("input"), "code": code, "coq": case.get("coq"),
                                       "diagnosis": diagnose(chk, case)})
                chk.notes.append("corpus: %d regression cases replayed, %d failing" % (len(cases), len([b for b in bad if b[1] != 2])))
                for r in recs:
                    if "stats" in r:
                        chk.notes.append("corpus run: CliqueGraphMergeStrategy::traverse took its fallback scan (index_to_coord path) %s times, %s of them after clique 0 had been merged away" % (r["stats"].get("traverse_fallback_scans"), r["stats"].get("traverse_fallback_scans_clique0_merged")))
                        SPEC.setdefault("extra", {})["traverse_fallback_scans_corpus"] = {"total": r["stats"].get("traverse_fallback_scans"), "clique0_merged": r["stats"].get("traverse_fallback_scans_clique0_merged")}
    if replay is None:
        ok, out = chk.build_coq(SPEC["targets"])
        hok, hout = chk.build_harness(bin="c17")
        if ok and hok:
            run_exhaustive(chk, 6, 16)
            if chk.tier == "thorough":
                run_exhaustive(chk, 7, 64)
    return standard.run_standard(chk, SPEC, replay)
