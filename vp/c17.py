import glob
import json
import os
from . import core, standard

HEADER = """From Coq Require Import List ZArith NArith. Import ListNotations.
Require Import Clarabel.Chordal.TreeSpec Clarabel.Chordal.Check."""


def nontrivial(case):
    inp = case.get("input", {})
    if case["op"] == "tree":
        return len(inp.get("edges", [])) >= 1
    if case["op"] == "dsu":
        return len(inp.get("ops", [])) >= 1
    return True


def diagnose(chk, case):
    """evaluate the conjuncts of check_tree separately on each strategy's outcome"""
    import re
    coq = case.get("coq", "")
    m = re.match(r"^\(let p := (.*?) in maxl \[(.*)\]\)$", coq, re.S)
    if not m:
        return None
    p, body = m.group(1), m.group(2)
    parts = [x.strip() for x in body.split("; c17_case_po p ")]
    parts = [parts[0]] + ["c17_case_po p " + x for x in parts[1:]]
    out = []
    merges = case.get("input", {}).get("merges", [])
    vals = chk.coq_show(HEADER, ["let p := %s in %s" % (p, x) for x in parts])
    for k, (x, v) in enumerate(zip(parts, vals)):
        if "= 0" in v:
            continue
        d = {"merge": merges[k] if k < len(merges) else k, "code": v}
        mt = re.search(r"\(Decomposed (\(mkTree .*\))\)\s*$", x, re.S)
        if mt:
            t = mt.group(1)
            names = ["chk_perm (pn p) (ordering t)", "N.eqb (ncl t) (N.of_nat (length (post t)))", "chk_index t", "nodupb (post t)",
                     "nlist_eqb (concat (map (sn t) (post t))) (vertices (pn p))", "forallb (fun c => nodupb (clique t c)) (post t)",
                     "chk_cover p t", "chk_chain t (post t)", "nlist_eqb (nblk t) (map (fun c => N.of_nat (length (clique t c))) (post t))"]
            cv = chk.coq_show(HEADER, ["let p := %s in let t := %s in %s" % (p, t, n) for n in names])
            d["failed_conjuncts"] = [n for n, v2 in zip(names, cv) if "= true" not in v2]
        else:
            d["outcome"] = x[-60:]
        out.append(d)
    return out


def post(chk, recs, cases):
    for r in recs:
        if "stats" in r:
            st = r["stats"]
            chk.notes.append("outcomes per strategy: " + ", ".join("%s=%s" % (k, v) for k, v in sorted(st.items()) if ":" in k and not k.startswith("family")))
            chk.notes.append("largest tree: %s cliques; largest pattern: %s vertices" % (st.get("max_cliques"), st.get("max_vertices")))


SPEC = {
    "props_file": "C17.v",
    "targets": ["theories/Props/C17.vo", "theories/Chordal/Check.vo"],
    "header": HEADER,
    "harness_bin": "c17",
    "harness_prop": "c17",
    "nontrivial": nontrivial,
    "diagnose": diagnose,
    "post": post,
    "what": "a tree produced by the implementation's chordal analysis is rejected by the proved checker check_tree (or the analysis crashed / hung / left a non-dense multi-clique pattern undecomposed)",
    "rule": "cases = (sparsity pattern, the three merge strategies) : every labelled graph on 1..6 vertices (quick) / 1..7 (thorough), random banded / arrow / block-diagonal / disconnected / clique-tree chordal (deep, star) / Erdos-Renyi / cycle / grid patterns up to 300 vertices, presentation variants (diagonal absent, entries in b), plus union-find operation sequences; non-trivial = at least one off-diagonal entry (resp. one union); distinct = distinct input JSON",
    "level": "translation_validation",
    "explanation": "Every clique tree the implementation returns (through ChordalInfo::new, the solver's own path) is checked inside Coq by check_tree, proved sound w.r.t. ValidTree (ordering permutation, consecutive supernode partition, coverage of every structural nonzero, parent later in post-order, separator = clique /\\ parent clique, running intersection, nblk). Undecomposed patterns must be dense or single-clique. The union-find, post_order and triangular index maps are proved correct as components; the merge strategies themselves are validated, not proved.",
    "assumptions": ["the universal claim for the merge strategies is established only on the explored patterns (exhaustive bound stated in the rule)",
                    "usize overflow not modelled; isqrt modelled as exact integer square root (valid below 2^52)"],
    "harness_timeout": 3000,
    "coq_timeout": 2400,
}


def run(chk, replay=None):
    if replay is None:
        # regression corpus first (replayed through the same pipeline, results merged by a separate run)
        corpus = sorted(glob.glob(os.path.join(core.VERIF, "corpus", "C17", "*.json")))
        if corpus:
            allc = []
            for f in corpus:
                v = json.load(open(f))
                allc.extend(v["cases"] if isinstance(v, dict) and "cases" in v else [v])
            cf = os.path.join(chk.wdir, "corpus_C17.json")
            json.dump({"cases": allc}, open(cf, "w"))
            hok, hout = chk.build_harness(bin="c17")
            if hok:
                rc, out, recs = chk.run_harness(["--seed", str(chk.seed), "--tier", chk.tier, "--replay", cf], "corpus_cases_C17.jsonl", timeout=900, bin="c17")
                cases = [r for r in recs if "coq" in r]
                bad, errors = chk.coq_eval(HEADER, cases, tag="corpus")
                for case, code in bad:
                    if code != 2:
                        chk.violation({"property": "C17", "kind": "corpus-regression", "input": case.get("input"), "code": code, "coq": case.get("coq"),
                                       "diagnosis": diagnose(chk, case)})
                chk.notes.append("corpus: %d regression cases replayed, %d failing" % (len(cases), len([b for b in bad if b[1] != 2])))
    return standard.run_standard(chk, SPEC, replay)
